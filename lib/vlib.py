"""Shared machinery of the /verif checks (see DESIGN.md section 2).

A check is a python module checks/cNN.py with a function `run(ck: Check)`.  It uses this
library to
  * regenerate Lean files from /repo's source (translator, property specific),
  * build Lean modules and find out, per theorem, whether the kernel accepted it and which
    axioms it depends on,
  * build a harness binary against /repo's current working tree,
  * run the implementation and the compiled Lean model on the same requests and diff,
  * report violations / known findings and write the evidence file.
"""
import fcntl
import hashlib
import json
import os
import re
import shutil
import subprocess
import sys
import time

VERIF = os.path.dirname(os.path.dirname(os.path.abspath(__file__)))
REPO = os.environ.get("VERIF_REPO", "/repo")
LEAN = os.path.join(VERIF, "lean")
HARNESS = os.path.join(VERIF, "harness")
WORK = os.path.join(VERIF, ".work")
# evidence/ and replays/ of a run against a scratch worktree (VERIF_REPO) are kept apart from the
# registered ones, which must come from /repo itself
OUT_ROOT = VERIF if os.path.realpath(REPO) == "/repo" else os.path.join(WORK, "scratch-" + os.path.basename(os.path.realpath(REPO)))
ALLOWED_AXIOMS = {"propext", "Classical.choice", "Quot.sound"}
FORBIDDEN_RE = re.compile(
    r"\bsorry\b|\badmit\b|^\s*axiom\s|native_decide|bv_decide|implemented_by|\bunsafe\s|maxHeartbeats\s+0\b"
)

ENV = dict(os.environ)
ENV.update({"CARGO_NET_OFFLINE": "true", "GOPROXY": "off", "PIP_NO_INDEX": "1", "RUST_LOG": "off"})


def sh(cmd, cwd=None, timeout=None, env=None, stdin=None):
    """Runs a command; returns (rc, stdout+stderr)."""
    e = dict(ENV)
    if env:
        e.update(env)
    try:
        p = subprocess.run(
            cmd, cwd=cwd, env=e, timeout=timeout, input=stdin,
            stdout=subprocess.PIPE, stderr=subprocess.STDOUT, text=True,
            shell=isinstance(cmd, str), errors="replace",
        )
        return p.returncode, p.stdout
    except subprocess.TimeoutExpired as ex:
        out = ex.stdout or ""
        if isinstance(out, bytes):
            out = out.decode(errors="replace")
        return 124, out + "\n[timeout]"


class FileLock:
    def __init__(self, name):
        os.makedirs(WORK, exist_ok=True)
        self.path = os.path.join(WORK, name + ".lock")

    def __enter__(self):
        self.f = open(self.path, "w")
        fcntl.flock(self.f, fcntl.LOCK_EX)
        return self

    def __exit__(self, *a):
        fcntl.flock(self.f, fcntl.LOCK_UN)
        self.f.close()


# --------------------------------------------------------------------------------------------
# Lean
# --------------------------------------------------------------------------------------------

def strip_lean_comments(src):
    """Removes -- line comments and /- -/ block comments (nesting handled), keeps strings."""
    out = []
    i, n, depth = 0, len(src), 0
    in_str = False
    while i < n:
        c = src[i]
        if depth > 0:
            if src.startswith("/-", i):
                depth += 1
                i += 2
            elif src.startswith("-/", i):
                depth -= 1
                i += 2
            else:
                if c == "\n":
                    out.append(c)
                i += 1
            continue
        if in_str:
            out.append(c)
            if c == "\\" and i + 1 < n:
                out.append(src[i + 1])
                i += 2
                continue
            if c == '"':
                in_str = False
            i += 1
            continue
        if c == '"':
            in_str = True
            out.append(c)
            i += 1
        elif src.startswith("/-", i):
            depth = 1
            i += 2
        elif src.startswith("--", i):
            while i < n and src[i] != "\n":
                i += 1
        else:
            out.append(c)
            i += 1
    return "".join(out)


def lean_forbidden(paths):
    """Returns [(path, lineno, line)] for forbidden constructs outside comments."""
    hits = []
    for p in paths:
        try:
            src = strip_lean_comments(open(p).read())
        except OSError:
            continue
        for k, line in enumerate(src.split("\n"), 1):
            if FORBIDDEN_RE.search(line):
                hits.append((p, k, line.strip()))
    return hits


def lean_sources(module):
    """Transitive closure of RlModel.* imports of a module -> list of file paths."""
    seen, todo, files = set(), [module], []
    while todo:
        m = todo.pop()
        if m in seen:
            continue
        seen.add(m)
        p = os.path.join(LEAN, m.replace(".", "/") + ".lean")
        if not os.path.exists(p):
            continue
        files.append(p)
        for line in open(p):
            mm = re.match(r"\s*(?:public\s+)?import\s+([A-Za-z0-9_.]+)", line)
            if mm and (mm.group(1).startswith("RlModel") or mm.group(1).startswith("Drivers")):
                todo.append(mm.group(1))
    return files


def lake_build(targets, timeout=3000):
    """`lake build t1 t2 ...` under the lean lock. Returns (rc, output)."""
    with FileLock("lake"):
        return sh(["lake", "build"] + list(targets), cwd=LEAN, timeout=timeout)


def lean_run_file(path, timeout=1800):
    """`lake env lean <path>`; returns (rc, output)."""
    return sh(["lake", "env", "lean", "-DmaxErrors=1000000", path], cwd=LEAN, timeout=timeout)


def theorem_spans(path):
    """[(name, first_line, last_line)] of top-level theorem/lemma/def/example declarations."""
    lines = open(path).read().split("\n")
    decl = re.compile(r"^\s*(?:@\[[^\]]*\]\s*)*(?:private\s+|protected\s+|noncomputable\s+)*(theorem|lemma|def|example|instance|abbrev|structure|inductive)\s+([^\s:(\[{]+)?")
    starts = []
    for k, l in enumerate(lines, 1):
        m = decl.match(l)
        if m:
            starts.append((m.group(2) or "example", k))
    spans = []
    for idx, (nm, k) in enumerate(starts):
        end = starts[idx + 1][1] - 1 if idx + 1 < len(starts) else len(lines)
        spans.append((nm, k, end))
    return spans


def lean_errors_by_decl(path, output, base=None):
    """Maps `file:line:col: error` messages of `output` to declarations of `path`."""
    spans = theorem_spans(path)
    errs = {}
    base = base or os.path.basename(path)
    for m in re.finditer(r"^(\S*?%s):(\d+):(\d+): error: (.*)$" % re.escape(base), output, re.M):
        ln = int(m.group(2))
        name = None
        for nm, a, b in spans:
            if a <= ln <= b:
                name = nm
        errs.setdefault(name or "<file>", []).append("%s:%d: %s" % (base, ln, m.group(4)[:300]))
    return errs


def _parse_axioms(out):
    text = out.replace("\n ", " ")
    found = {}
    for m in re.finditer(r"'([^']+)' depends on axioms: \[([^\]]*)\]", text, re.S):
        found[m.group(1)] = [a.strip() for a in m.group(2).replace("\n", " ").split(",") if a.strip()]
    for m in re.finditer(r"'([^']+)' does not depend on any axioms", text):
        found[m.group(1)] = []
    return found


def audit_theorems(module, names, namespace="RlModel", tag="audit"):
    """Checks that each theorem exists in `module` (already built) and prints its axioms.

    Returns {name: {"status": "ok"|"missing"|"axioms"|"sorry", "axioms": [...]}}.
    """
    os.makedirs(WORK, exist_ok=True)
    res = {}
    if not names:
        return res
    path = os.path.join(WORK, "%s_%s_%d.lean" % (tag, module.replace(".", "_"), os.getpid()))
    with open(path, "w") as f:
        f.write("import %s\n" % module)
        if namespace:
            f.write("open %s\n" % namespace)
        for n in names:
            f.write("#print axioms %s\n" % n)
    rc, out = lean_run_file(path)
    os.unlink(path)
    # messages come in order; parse
    cur = None
    found = {}
    # Output forms:
    #  'RlModel.foo' depends on axioms: [propext, Quot.sound]
    #  'RlModel.foo' does not depend on any axioms
    #  file:line:col: error: unknown constant / unknown identifier 'foo'
    text = out.replace("\n ", " ")
    for m in re.finditer(r"'([^']+)' depends on axioms: \[([^\]]*)\]", text, re.S):
        axs = [a.strip() for a in m.group(2).replace("\n", " ").split(",") if a.strip()]
        found[m.group(1)] = axs
    for m in re.finditer(r"'([^']+)' does not depend on any axioms", text):
        found[m.group(1)] = []
    for n in names:
        full = [k for k in found if k == n or k.endswith("." + n)]
        if not full:
            res[n] = {"status": "missing", "axioms": []}
            continue
        axs = found[full[0]]
        if any("sorry" in a for a in axs):
            st = "sorry"
        elif set(axs) - ALLOWED_AXIOMS:
            st = "axioms"
        else:
            st = "ok"
        res[n] = {"status": st, "axioms": axs}
    return res


def check_lean_obligations(module, names, namespace="RlModel", extra_targets=()):
    """Builds `module` and decides every obligation in `names`.

    Returns (status_by_name, build_log, errors_by_decl).  A name is discharged iff the module
    (and so all its imports) compiled without error in that declaration, the theorem exists and
    depends only on the allowed axioms.  When the module does not build, the file is elaborated
    on its own so that the unaffected theorems are still told apart from the broken ones.
    """
    rc, log = lake_build([module] + list(extra_targets))
    path = os.path.join(LEAN, module.replace(".", "/") + ".lean")
    errs = {}
    status = {}
    if rc != 0:
        # Elaborate a copy of the module file with `#print axioms` appended: Lean carries on
        # after a failed declaration (it is admitted with sorryAx), so theorems that neither
        # fail nor depend on a failed one are still told apart.
        os.makedirs(WORK, exist_ok=True)
        tmp = os.path.join(WORK, "fallback_%s_%d.lean" % (module.replace(".", "_"), os.getpid()))
        src = open(path).read()
        with open(tmp, "w") as f:
            f.write(src + "\n")
            if namespace:
                f.write("open %s\n" % namespace)
            for n in names:
                f.write("#print axioms %s\n" % n)
        rc2, out2 = lean_run_file(tmp)
        os.unlink(tmp)
        errs = lean_errors_by_decl(path, out2, os.path.basename(tmp))
        import_broken = bool(re.search(r"unknown module prefix|object file .* does not exist|unknown package", out2))
        found = _parse_axioms(out2)
        for n in names:
            short = n.split(".")[-1]
            full = [k for k in found if k == n or k.endswith("." + n)]
            if import_broken:
                status[n] = {"status": "unchecked", "axioms": [], "detail": ["an imported module does not build"]}
            elif short in errs:
                status[n] = {"status": "error", "axioms": [], "detail": errs[short][:3]}
            elif not full:
                status[n] = {"status": "missing", "axioms": []}
            else:
                axs = found[full[0]]
                if any("sorry" in a for a in axs):
                    status[n] = {"status": "sorry", "axioms": axs, "detail": ["depends on a declaration that failed"]}
                elif set(axs) - ALLOWED_AXIOMS:
                    status[n] = {"status": "axioms", "axioms": axs}
                else:
                    status[n] = {"status": "ok", "axioms": axs}
        return status, log + "\n" + out2[-3000:], errs
    status = audit_theorems(module, names, namespace)
    return status, log, errs


# --------------------------------------------------------------------------------------------
# Rust harness
# --------------------------------------------------------------------------------------------

def harness_dir():
    """The harness crate to build.  For /repo itself this is /verif/harness.  When VERIF_REPO
    points at a scratch worktree (used to try a change without touching /repo), a mirror of
    the crate with the path dependency rewritten lives inside that worktree and is removed
    together with it."""
    if os.path.realpath(REPO) == "/repo":
        return HARNESS
    d = os.path.join(REPO, ".verif-harness")
    os.makedirs(d, exist_ok=True)
    sh(["rsync", "-a", "--delete", "--exclude", "target", HARNESS + "/", d + "/"])
    ct = open(os.path.join(d, "Cargo.toml")).read().replace('"/repo/proto"', '"%s/proto"' % REPO).replace('"/repo"', '"%s"' % REPO)
    open(os.path.join(d, "Cargo.toml"), "w").write(ct)
    return d


def cargo_build(bins, timeout=3000):
    """Builds harness binaries against the repository's working tree (hooks on)."""
    args = ["cargo", "build", "--offline", "--quiet"]
    for b in bins:
        args += ["--bin", b]
    with FileLock("cargo" if os.path.realpath(REPO) == "/repo" else "cargo-" + slug(REPO)):
        rc, out = sh(args, cwd=harness_dir(), timeout=timeout)
    return rc, out


def harness_bin(name):
    return os.path.join(harness_dir(), "target", "debug", name)


def lean_exe(name):
    return os.path.join(LEAN, ".lake", "build", "bin", name)


def repo_head():
    rc, out = sh(["git", "-C", REPO, "rev-parse", "HEAD"])
    return out.strip()


def repo_dirty_files():
    rc, out = sh(["git", "-C", REPO, "status", "--porcelain"])
    return [l[3:] for l in out.split("\n") if l.strip()]


# --------------------------------------------------------------------------------------------
# Check object: violations, known findings, evidence
# --------------------------------------------------------------------------------------------

def slug(s):
    s2 = re.sub(r"[^A-Za-z0-9_.-]+", "_", s).strip("_")
    if len(s2) > 80:
        s2 = s2[:60] + "_" + hashlib.sha1(s.encode()).hexdigest()[:10]
    return s2 or "x"


def load_known_findings():
    """known_findings/<ID>.json: {"findings":[{property,sig,what,replay}], "fixed":[...]}.
    Committed files, never written at run time."""
    known = {}
    d = os.path.join(VERIF, "known_findings")
    for fn in sorted(os.listdir(d)):
        if not fn.endswith(".json"):
            continue
        kf = json.load(open(os.path.join(d, fn)))
        for f in kf.get("findings", []):
            known[(f["property"], f["sig"])] = f
    return known


class Check:
    def __init__(self, prop, tier="quick", seed=1):
        self.prop = prop
        self.tier = tier
        self.seed = seed
        self.t0 = time.time()
        self.work = os.path.join(WORK, "%s-%d" % (prop, os.getpid()))
        if os.path.exists(self.work):
            shutil.rmtree(self.work)
        os.makedirs(self.work)
        self.known = load_known_findings()
        self.violations = []       # (sig, what, replay_path, found_input)
        self.known_seen = {}       # sig -> what
        self.coverage = {}
        self.assumptions = []
        self.obligations = {}      # name -> status dict
        self.notes = []

    # ---- reporting ----
    def log(self, msg):
        print("[%s %6.1fs] %s" % (self.prop, time.time() - self.t0, msg), flush=True)

    def quick(self):
        return self.tier == "quick"

    def report(self, sig, what, replay=None, found_input=True):
        """A property failure with signature `sig`.  Known finding -> KNOWN-FINDING line,
        otherwise a violation.  `replay` is any JSON-serialisable object (written to
        replays/<ID>/<sig>.json).  found_input=False => `no-failing-input-found`."""
        if found_input and (self.prop, sig) in self.known:
            if sig not in self.known_seen:
                self.known_seen[sig] = what
            return "known"
        for v in self.violations:
            if v[0] == sig:
                return "dup"
        d = os.path.join(OUT_ROOT, "replays", self.prop)
        os.makedirs(d, exist_ok=True)
        path = os.path.join(d, slug(sig) + ".json")
        with open(path, "w") as f:
            json.dump({"property": self.prop, "sig": sig, "what": what,
                       "failing_input_found": found_input, "seed": self.seed, "tier": self.tier,
                       "repo_head": repo_head(), "repo_dirty": repo_dirty_files()[:50],
                       "replay": replay}, f, indent=1, default=str)
        self.violations.append((sig, what, path, found_input))
        return "violation"

    def add_obligations(self, status_by_name):
        self.obligations.update(status_by_name)

    def discharged(self):
        return [n for n, s in self.obligations.items() if s["status"] == "ok"]

    def undischarged(self):
        return {n: s for n, s in self.obligations.items() if s["status"] != "ok"}

    # ---- finish ----
    def finish(self, level="proof", checker_cmd="", trusted_base=None, extra=None):
        wall = time.time() - self.t0
        cov = dict(self.coverage)
        cov.setdefault("obligations", len(self.obligations))
        cov.setdefault("discharged", len(self.discharged()))
        cov.setdefault("checker_cmd", checker_cmd or "lake build (Lean 4 kernel) + #print axioms audit")
        cov.setdefault("trusted_base", trusted_base or [])
        cov["axioms"] = sorted({a for s in self.obligations.values() for a in s.get("axioms", [])})
        cov["undischarged"] = {n: s for n, s in list(self.undischarged().items())[:50]}
        cov["known_findings_seen"] = self.known_seen
        cov["violation_sigs"] = [v[0] for v in self.violations]
        cov["repo_head"] = repo_head()
        if extra:
            cov.update(extra)
        ev = {
            "property_id": self.prop, "tier": self.tier, "seed": self.seed, "level": level,
            "coverage": cov, "assumptions": self.assumptions, "wall_s": round(wall, 2),
            "violations": len(self.violations),
        }
        # keys the evidence schema types: a check that put something else there (e.g. a dict under
        # `exhaustive`) would make the whole file invalid — move such values aside
        types = {"evaluations": int, "distinct_nontrivial": int, "rule": str, "samples": list, "states": int,
                 "transitions": int, "traces_validated_against_impl": int, "obligations": int, "discharged": int,
                 "checker_cmd": str, "trusted_base": list, "programs": int, "disagreements_checked": int,
                 "explanation": str, "exhaustive": bool}
        for k, ty in types.items():
            if k in cov and (not isinstance(cov[k], ty) or (ty is int and isinstance(cov[k], bool))):
                cov[k + "_detail"] = cov.pop(k)
        os.makedirs(os.path.join(OUT_ROOT, "evidence"), exist_ok=True)
        with open(os.path.join(OUT_ROOT, "evidence", self.prop + ".json"), "w") as f:
            json.dump(ev, f, indent=1, default=str)
        for sig, what in sorted(self.known_seen.items()):
            print("KNOWN-FINDING: property=%s %s: %s" % (self.prop, sig, what))
        for sig, what, path, found in self.violations:
            print("VIOLATION property=%s replay=%s%s" % (self.prop, path, "" if found else " no-failing-input-found"))
            print("  (%s) %s" % (sig, what[:300]))
        shutil.rmtree(self.work, ignore_errors=True)
        self.log("done: obligations %d/%d discharged, %d violation(s), %d known finding(s), %.1fs" % (
            len(self.discharged()), len(self.obligations), len(self.violations), len(self.known_seen), wall))
        return 1 if self.violations else 0


# --------------------------------------------------------------------------------------------
# Standard steps shared by the checks
# --------------------------------------------------------------------------------------------

def step_lean(ck, module, names, extra_targets=(), namespace="RlModel"):
    """Lean step: build module (+ driver targets), audit theorems, record obligations.
    Returns the list of obligations that are not discharged."""
    ck.log("lean: building %s (%d obligations)" % (module, len(names)))
    status, log, errs = check_lean_obligations(module, names, namespace, extra_targets)
    ck.add_obligations(status)
    srcs = lean_sources(module)
    hits = lean_forbidden(srcs)
    if hits:
        for n in names:
            if status.get(n, {}).get("status") == "ok":
                status[n] = {"status": "forbidden", "axioms": status[n]["axioms"],
                             "detail": ["%s:%d: %s" % h for h in hits[:3]]}
        ck.add_obligations(status)
    bad = {n: s for n, s in status.items() if s["status"] != "ok"}
    if bad:
        ck.log("lean: %d obligation(s) NOT discharged: %s" % (len(bad), ", ".join(list(bad)[:8])))
        ck.coverage["lean_log_tail"] = log[-3000:]
    return bad


def step_cargo(ck, bins):
    ck.log("cargo: building %s from %s" % (",".join(bins), REPO))
    rc, out = cargo_build(bins)
    if rc != 0:
        ck.coverage["cargo_log_tail"] = out[-3000:]
        ck.log("cargo build FAILED\n" + out[-1500:])
    return rc == 0, out


def run_pair(ck, harness_cmd, driver_cmd, requests_path, timeout=3000):
    """Runs implementation harness and Lean driver on the same request file.
    Each prints one answer line per request.  Returns (impl_lines, model_lines)."""
    rc1, out1 = sh(harness_cmd + [requests_path], timeout=timeout)
    with open(requests_path) as f:
        data = f.read()
    rc2, out2 = sh(driver_cmd, stdin=data, timeout=timeout)
    return (rc1, out1.split("\n")), (rc2, out2.split("\n"))
