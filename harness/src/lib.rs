//! Shared utilities of the correspondence harness (`rlverif`).
//!
//! Every property has its own binary under `src/bin/`; this library holds what they share:
//! a deterministic PRNG, an s-expression reader/printer (the wire format shared with the Lean
//! drivers), canonical printing of `DataValue`s, and helpers to run RisingLight on a
//! current-thread runtime with panics caught.

use std::fmt::Write as _;
use std::panic::{catch_unwind, AssertUnwindSafe};

pub use risinglight;
use risinglight::array::{ArrayImpl, DataChunk};
use risinglight::types::DataValue;

// ---------------------------------------------------------------------------------------------
// PRNG (SplitMix64): every random choice of a run derives from VERIF_SEED.
// ---------------------------------------------------------------------------------------------

#[derive(Clone, Debug)]
pub struct Rng(pub u64);

impl Rng {
    pub fn new(seed: u64) -> Self {
        Rng(seed ^ 0x9E37_79B9_7F4A_7C15)
    }
    pub fn from_env() -> Self {
        Self::new(seed_from_env())
    }
    pub fn next(&mut self) -> u64 {
        self.0 = self.0.wrapping_add(0x9E37_79B9_7F4A_7C15);
        let mut z = self.0;
        z = (z ^ (z >> 30)).wrapping_mul(0xBF58_476D_1CE4_E5B9);
        z = (z ^ (z >> 27)).wrapping_mul(0x94D0_49BB_1331_11EB);
        z ^ (z >> 31)
    }
    /// uniform in 0..n (n > 0)
    pub fn below(&mut self, n: u64) -> u64 {
        self.next() % n
    }
    pub fn range(&mut self, lo: i64, hi: i64) -> i64 {
        lo + (self.below((hi - lo + 1) as u64) as i64)
    }
    pub fn chance(&mut self, num: u64, den: u64) -> bool {
        self.below(den) < num
    }
    pub fn pick<'a, T>(&mut self, xs: &'a [T]) -> &'a T {
        &xs[self.below(xs.len() as u64) as usize]
    }
    pub fn fork(&mut self) -> Rng {
        Rng(self.next())
    }
}

pub fn seed_from_env() -> u64 {
    std::env::var("VERIF_SEED")
        .ok()
        .and_then(|s| s.trim().parse::<u64>().ok())
        .unwrap_or(1)
}

// ---------------------------------------------------------------------------------------------
// S-expressions
// ---------------------------------------------------------------------------------------------

#[derive(Clone, Debug, PartialEq, Eq)]
pub enum Sexp {
    Atom(String),
    List(Vec<Sexp>),
}

impl Sexp {
    pub fn atom(s: impl Into<String>) -> Sexp {
        Sexp::Atom(s.into())
    }
    pub fn list(v: Vec<Sexp>) -> Sexp {
        Sexp::List(v)
    }
    pub fn as_atom(&self) -> Option<&str> {
        match self {
            Sexp::Atom(s) => Some(s),
            _ => None,
        }
    }
    pub fn as_list(&self) -> Option<&[Sexp]> {
        match self {
            Sexp::List(v) => Some(v),
            _ => None,
        }
    }
    /// Parses one s-expression. Atoms are maximal runs of characters other than whitespace and
    /// parentheses; an atom starting with `'` extends to the matching closing `'` (no escapes),
    /// which is how RisingLight prints string constants.
    pub fn parse(s: &str) -> Result<Sexp, String> {
        let cs: Vec<char> = s.chars().collect();
        let mut pos = 0usize;
        let r = parse_at(&cs, &mut pos)?;
        skip_ws(&cs, &mut pos);
        if pos != cs.len() {
            return Err(format!("trailing input at {pos}"));
        }
        Ok(r)
    }
}

fn skip_ws(cs: &[char], pos: &mut usize) {
    while *pos < cs.len() && cs[*pos].is_whitespace() {
        *pos += 1;
    }
}

fn parse_at(cs: &[char], pos: &mut usize) -> Result<Sexp, String> {
    skip_ws(cs, pos);
    if *pos >= cs.len() {
        return Err("unexpected end".into());
    }
    match cs[*pos] {
        '(' => {
            *pos += 1;
            let mut v = vec![];
            loop {
                skip_ws(cs, pos);
                if *pos >= cs.len() {
                    return Err("unclosed (".into());
                }
                if cs[*pos] == ')' {
                    *pos += 1;
                    return Ok(Sexp::List(v));
                }
                v.push(parse_at(cs, pos)?);
            }
        }
        ')' => Err(format!("unexpected ) at {pos}")),
        q @ ('\'' | '"') => {
            let start = *pos;
            *pos += 1;
            while *pos < cs.len() && cs[*pos] != q {
                *pos += 1;
            }
            if *pos >= cs.len() {
                return Err("unclosed quote".into());
            }
            *pos += 1;
            Ok(Sexp::Atom(cs[start..*pos].iter().collect()))
        }
        _ => {
            let start = *pos;
            while *pos < cs.len() && !cs[*pos].is_whitespace() && cs[*pos] != '(' && cs[*pos] != ')'
            {
                *pos += 1;
            }
            Ok(Sexp::Atom(cs[start..*pos].iter().collect()))
        }
    }
}

impl std::fmt::Display for Sexp {
    fn fmt(&self, f: &mut std::fmt::Formatter<'_>) -> std::fmt::Result {
        match self {
            Sexp::Atom(a) => f.write_str(a),
            Sexp::List(v) => {
                f.write_char('(')?;
                for (i, x) in v.iter().enumerate() {
                    if i > 0 {
                        f.write_char(' ')?;
                    }
                    write!(f, "{x}")?;
                }
                f.write_char(')')
            }
        }
    }
}

// ---------------------------------------------------------------------------------------------
// Canonical value text (shared with the Lean drivers)
//
//   null | b:true | b:false | i16:<n> | i32:<n> | i64:<n> | f64:<bits as 16 hex digits>
//   | s:<hex of utf-8 bytes> | blob:<hex> | dec:<display> | date:<days> | ts:<us> | tstz:<us>
//   | iv:<months>:<days>:<ms> | vec:<display>
//
// Values are read through the typed API, never through Display, so a real NULL and the string
// "NULL" can not be confused.
// ---------------------------------------------------------------------------------------------

pub fn hex(bytes: &[u8]) -> String {
    let mut s = String::with_capacity(bytes.len() * 2);
    for b in bytes {
        write!(s, "{b:02x}").unwrap();
    }
    s
}

pub fn unhex(s: &str) -> Option<Vec<u8>> {
    if s.len() % 2 != 0 {
        return None;
    }
    (0..s.len())
        .step_by(2)
        .map(|i| u8::from_str_radix(&s[i..i + 2], 16).ok())
        .collect()
}

pub fn canon_value(v: &DataValue) -> String {
    match v {
        DataValue::Null => "null".into(),
        DataValue::Bool(b) => format!("b:{b}"),
        DataValue::Int16(x) => format!("i16:{x}"),
        DataValue::Int32(x) => format!("i32:{x}"),
        DataValue::Int64(x) => format!("i64:{x}"),
        DataValue::Float64(x) => format!("f64:{:016x}", x.0.to_bits()),
        DataValue::String(s) => format!("s:{}", hex(s.as_bytes())),
        DataValue::Blob(b) => format!("blob:{}", hex(b.as_ref())),
        DataValue::Decimal(d) => format!("dec:{d}"),
        DataValue::Date(d) => format!("date:{}", d.get_inner()),
        DataValue::Timestamp(t) => format!("ts:{}", t.get_inner()),
        DataValue::TimestampTz(t) => format!("tstz:{}", t.get_inner()),
        DataValue::Interval(i) => {
            let j = serde_json::to_value(i).unwrap();
            format!("iv:{}:{}:{}", j["months"], j["days"], j["ms"])
        }
        DataValue::Vector(v) => format!("vec:{v}"),
    }
}

/// Rows of a chunk, each value in canonical text.
pub fn canon_rows(chunk: &DataChunk) -> Vec<Vec<String>> {
    let n = chunk.cardinality();
    let arrays: &[ArrayImpl] = chunk.arrays();
    (0..n)
        .map(|i| arrays.iter().map(|a| canon_value(&a.get(i))).collect())
        .collect()
}

pub fn canon_rows_of(chunks: &[DataChunk]) -> Vec<Vec<String>> {
    chunks.iter().flat_map(canon_rows).collect()
}

/// `(row v v v)(row ...)` rendering; `sorted` for bag comparison.
pub fn render_rows(mut rows: Vec<Vec<String>>, sorted: bool) -> String {
    if sorted {
        rows.sort();
    }
    let mut s = String::new();
    for (i, r) in rows.iter().enumerate() {
        if i > 0 {
            s.push(' ');
        }
        s.push('(');
        s.push_str(&r.join(" "));
        s.push(')');
    }
    s
}

// ---------------------------------------------------------------------------------------------
// Running things
// ---------------------------------------------------------------------------------------------

/// The same runtime flavour the repository's own tests use.
pub fn runtime() -> tokio::runtime::Runtime {
    tokio::runtime::Builder::new_current_thread()
        .enable_all()
        .build()
        .unwrap()
}

/// Runs `f`, mapping a panic to `Err(message)`. The default panic hook is silenced once.
pub fn catch<T>(f: impl FnOnce() -> T) -> Result<T, String> {
    silence_panics();
    catch_unwind(AssertUnwindSafe(f)).map_err(|e| {
        if let Some(s) = e.downcast_ref::<&str>() {
            s.to_string()
        } else if let Some(s) = e.downcast_ref::<String>() {
            s.clone()
        } else {
            "panic".to_string()
        }
    })
}

pub fn silence_panics() {
    use std::sync::Once;
    static ONCE: Once = Once::new();
    ONCE.call_once(|| {
        if std::env::var("VERIF_SHOW_PANICS").is_err() {
            std::panic::set_hook(Box::new(|_| {}));
        }
    });
}

/// Outcome of one SQL statement in canonical form.
#[derive(Clone, Debug, PartialEq, Eq)]
pub enum Outcome {
    Ok(Vec<Vec<String>>),
    Err(String),
    Panic(String),
}

impl Outcome {
    pub fn class(&self) -> &'static str {
        match self {
            Outcome::Ok(_) => "ok",
            Outcome::Err(_) => "err",
            Outcome::Panic(_) => "panic",
        }
    }
    pub fn render(&self, sorted: bool) -> String {
        match self {
            Outcome::Ok(rows) => format!("ok {}", render_rows(rows.clone(), sorted)),
            Outcome::Err(_) => "err".into(),
            Outcome::Panic(_) => "panic".into(),
        }
    }
}

/// Runs one SQL string (possibly several statements; the rows of the last one are returned).
pub fn run_sql(rt: &tokio::runtime::Runtime, db: &risinglight::Database, sql: &str) -> Outcome {
    let r = catch(|| rt.block_on(db.run(sql)));
    match r {
        Err(p) => Outcome::Panic(p),
        Ok(Err(e)) => Outcome::Err(e.to_string()),
        Ok(Ok(chunks)) => {
            let rows = chunks
                .last()
                .map(|c| c.data_chunks().iter().flat_map(canon_rows).collect())
                .unwrap_or_default();
            Outcome::Ok(rows)
        }
    }
}

/// Reads all of stdin-style request files: one request per line, blank lines and `#` comments
/// skipped.
pub fn read_lines(path: &str) -> Vec<String> {
    std::fs::read_to_string(path)
        .unwrap_or_else(|e| panic!("cannot read {path}: {e}"))
        .lines()
        .filter(|l| !l.trim().is_empty() && !l.starts_with('#'))
        .map(|l| l.to_string())
        .collect()
}
