//! Shared by the C03 / C05 / C07 harness binaries (included with `#[path]`, not part of the lib).
//!
//! Executes generated storage histories on the REAL on-disk engine and prints one observation
//! line per step.  Histories are produced by the python check (one PRNG); SQL text travels as
//! hex atoms so this side renders nothing itself.
//!
//!   (hist <id> (opts <rowset_size> <block_size> <cksum 0|1> <firstkey 0|1>) (names t0 t1 ..) <step>*)
//!   step := (create <hexsql> <name> (<col> <TYPE> <notnull> <pk>)*) | (view <hexsql> <name>)
//!         | (index <hexsql> <name> <table>) | (drop <hexsql> <name>) | (insert <hexsql> <table> <row>*)
//!         | (delete <hexsql> <table> <pred>) | (compact) | (vacuum) | (reopen)
//!
//! Besides the observations, the annotated request for the Lean model is produced: how the
//! implementation resolved what the model leaves open (which rows of an INSERT went to which new
//! row-set; which row-sets a compaction pass selected).
#![allow(dead_code)]

use std::collections::BTreeMap;
use std::path::{Path, PathBuf};
use std::sync::Arc;

use rlverif::risinglight::storage::{
    ScanOptions, SecondaryStorage, SecondaryStorageOptions, Storage, StorageColumnRef, StorageImpl,
    Table, Transaction, TxnIterator,
};
use rlverif::risinglight::catalog::TableRefId;
use rlverif::risinglight::Database;
use rlverif::*;

pub fn unhex_str(h: &str) -> String {
    String::from_utf8(unhex(h).expect("bad hex")).expect("bad utf8")
}

pub struct Opts {
    pub rowset: usize,
    pub block: usize,
    pub cksum: bool,
    pub firstkey: bool,
}

impl Opts {
    pub fn parse(s: &Sexp) -> Opts {
        let v = s.as_list().unwrap();
        let n = |i: usize| v[i].as_atom().unwrap().parse::<usize>().unwrap();
        Opts { rowset: n(1), block: n(2), cksum: n(3) == 1, firstkey: n(4) == 1 }
    }
    pub fn storage_options(&self, path: &Path) -> SecondaryStorageOptions {
        let mut o = SecondaryStorageOptions::default_for_cli();
        o.path = path.to_path_buf();
        o.cache_size = 1024;
        o.target_rowset_size = self.rowset;
        o.target_block_size = self.block;
        o.checksum_type = if self.cksum {
            SecondaryStorageOptions::default_for_cli().checksum_type
        } else {
            SecondaryStorageOptions::default_for_test().checksum_type
        };
        o.record_first_key = self.firstkey;
        o.disable_all_disk_operation = false;
        o
    }
}

/// Order-independent digest of a bag of canonical rows (same function in the Lean driver).
pub fn row_hash(row: &[String]) -> u64 {
    let mut h: u64 = 1469598103;
    for v in row {
        for b in v.bytes() {
            h = (h.wrapping_mul(1099511) ^ (b as u64)) % 1000000007;
        }
        h = (h.wrapping_mul(1099511) ^ 32) % 1000000007;
    }
    h
}

pub fn render_bag(rows: &[Vec<String>]) -> String {
    if rows.len() > 48 {
        let mut sum: u64 = 0;
        for r in rows {
            sum = (sum + row_hash(r)) % 1000000007;
        }
        format!("#{}:{}", rows.len(), sum)
    } else {
        let mut s = String::new();
        for r in rows {
            s.push('(');
            s.push_str(&r.join(" "));
            s.push(')');
        }
        s
    }
}

pub struct Disk {
    pub rt: tokio::runtime::Runtime,
    pub path: PathBuf,
    pub opts: Opts,
    pub db: Option<Database>,
    pub dead: Option<String>,
}

impl Disk {
    pub fn open(path: PathBuf, opts: Opts) -> Disk {
        let _ = std::fs::remove_dir_all(&path);
        if let Some(parent) = path.parent() {
            let _ = std::fs::create_dir_all(parent);
        }
        let rt = runtime();
        let mut d = Disk { rt, path, opts, db: None, dead: None };
        d.reopen();
        d
    }

    /// shutdown (drop: the storage has no background tasks) + open again
    pub fn reopen(&mut self) {
        self.db = None;
        let so = self.opts.storage_options(&self.path);
        let r = catch(|| self.rt.block_on(Database::verif_new_on_disk_nobg(so)));
        match r {
            Ok(Ok(db)) => self.db = Some(db),
            Ok(Err(e)) => self.dead = Some(format!("err:{e}")),
            Err(p) => self.dead = Some(format!("panic:{p}")),
        }
    }

    pub fn storage(&self) -> Arc<SecondaryStorage> {
        match self.db.as_ref().unwrap().verif_storage() {
            StorageImpl::SecondaryStorage(s) => s,
            _ => unreachable!(),
        }
    }

    pub fn sql(&self, sql: &str) -> Outcome {
        run_sql(&self.rt, self.db.as_ref().unwrap(), sql)
    }

    pub fn compact(&self) -> Result<(), String> {
        let st = self.storage();
        match catch(|| self.rt.block_on(st.verif_compact_once())) {
            Ok(Ok(())) => Ok(()),
            Ok(Err(e)) => Err(format!("err:{e}")),
            Err(p) => Err(format!("panic:{p}")),
        }
    }

    pub fn vacuum(&self) -> Result<(), String> {
        let st = self.storage();
        match catch(|| self.rt.block_on(st.verif_vacuum_once())) {
            Ok(Ok(())) => Ok(()),
            Ok(Err(e)) => Err(format!("err:{e}")),
            Err(p) => Err(format!("panic:{p}")),
        }
    }

    /// Manifest records in file order: `B`, `E`, `C:<name>`, `D:<tid>`, `AR:<tid>.<rs>`,
    /// `DR:<tid>.<rs>`, `AV:<tid>.<rs>.<dv>`, `DV:<tid>.<rs>.<dv>`.
    pub fn manifest(&self) -> Vec<String> {
        let data = std::fs::read_to_string(self.path.join("manifest.json")).unwrap_or_default();
        let mut out = vec![];
        for v in serde_json::Deserializer::from_str(&data).into_iter::<serde_json::Value>() {
            let Ok(v) = v else {
                out.push("TORN".into());
                break;
            };
            if let Some(s) = v.as_str() {
                out.push(if s == "Begin" { "B".into() } else { "E".into() });
                continue;
            }
            let (k, e) = v.as_object().unwrap().iter().next().unwrap();
            let tid = || e["table_id"]["table_id"].as_u64().unwrap();
            out.push(match k.as_str() {
                "CreateTable" => format!("C:{}", e["table_name"].as_str().unwrap()),
                "DropTable" => format!("D:{}", tid()),
                "AddRowSet" => format!("AR:{}.{}", tid(), e["rowset_id"]),
                "DeleteRowSet" => format!("DR:{}.{}", tid(), e["rowset_id"]),
                "AddDV" => format!("AV:{}.{}.{}", tid(), e["rowset_id"], e["dv_id"]),
                "DeleteDV" => format!("DV:{}.{}.{}", tid(), e["rowset_id"], e["dv_id"]),
                other => format!("?{other}"),
            });
        }
        out
    }

    /// `<id>:<name>:<t|v>` of schema `postgres`, sorted by id, with the column definitions of
    /// tables: `<id>:<name>:t:<col>/<TYPE>/<notnull>/<pk>,...`
    pub fn catalog(&self) -> Vec<String> {
        let cat = self.db.as_ref().unwrap().verif_catalog();
        let schema = cat.get_schema_by_name("postgres").unwrap();
        let mut v: Vec<(u32, String)> = schema
            .all_tables()
            .iter()
            .map(|(id, t)| {
                let cols: Vec<String> = t
                    .all_columns()
                    .values()
                    .map(|c| {
                        format!(
                            "{}/{}/{}/{}",
                            c.name(),
                            c.data_type().to_string().replace(' ', "_"),
                            if c.is_nullable() { 0 } else { 1 },
                            if c.is_primary() { 1 } else { 0 }
                        )
                    })
                    .collect();
                (
                    *id,
                    if t.is_view() {
                        format!("{}:{}:v", id, t.name())
                    } else {
                        format!("{}:{}:t:{}", id, t.name(), cols.join(","))
                    },
                )
            })
            .collect();
        v.sort();
        v.into_iter().map(|x| x.1).collect()
    }

    /// Physical layout seen by a row-handler scan of one table: row-set id ↦ visible
    /// (position, row) pairs.  `ncols` user columns are read along.
    pub fn phys(&self, tid: u32, ncols: usize) -> Result<BTreeMap<u32, Vec<(u32, Vec<String>)>>, String> {
        let st = self.storage();
        let r = catch(|| {
            self.rt.block_on(async {
                let table = st.get_table(TableRefId::new(1, tid)).map_err(|e| e.to_string())?;
                let txn = table.read().await.map_err(|e| e.to_string())?;
                let mut cols: Vec<StorageColumnRef> =
                    (0..ncols as u32).map(StorageColumnRef::Idx).collect();
                cols.push(StorageColumnRef::RowHandler);
                let mut it = txn.scan(&cols, ScanOptions::default()).await.map_err(|e| e.to_string())?;
                let mut out: BTreeMap<u32, Vec<(u32, Vec<String>)>> = BTreeMap::new();
                while let Some(chunk) = it.next_batch(None).await.map_err(|e| e.to_string())? {
                    for row in canon_rows(&chunk) {
                        let h: i64 = row[ncols].strip_prefix("i64:").unwrap().parse().unwrap();
                        let (rs, pos) = ((h >> 32) as u32, (h & 0xffff_ffff) as u32);
                        out.entry(rs).or_default().push((pos, row[..ncols].to_vec()));
                    }
                }
                txn.abort().await.map_err(|e| e.to_string())?;
                Ok::<_, String>(out)
            })
        });
        match r {
            Ok(x) => x,
            Err(p) => Err(format!("panic:{p}")),
        }
    }
}

pub fn outcome_text(o: &Outcome) -> String {
    match o {
        Outcome::Ok(rows) => {
            if rows.len() == 1 && rows[0].len() == 1 {
                format!("ok:{}", rows[0][0].split(':').nth(1).unwrap_or("?"))
            } else {
                "ok:?".into()
            }
        }
        Outcome::Err(_) => "err".into(),
        Outcome::Panic(_) => "panic".into(),
    }
}

/// canonical text of a query result: rows in the order returned
pub fn query_text(o: &Outcome) -> String {
    match o {
        Outcome::Ok(rows) => {
            let mut s = String::from("ok");
            for r in rows {
                s.push('(');
                s.push_str(&r.join(" "));
                s.push(')');
            }
            s
        }
        Outcome::Err(_) => "err".into(),
        Outcome::Panic(_) => "panic".into(),
    }
}

/// Runs one history; returns (observation lines, annotated request line for the model).
pub fn run_history(line: &str, work: &Path, detail: bool) -> (Vec<String>, String) {
    run_history_ext(line, work, detail, false)
}

/// `with_mem`: the same statements are also run on `Database::new_in_memory()`; the line then
/// carries `mout=` / `mtabs=` and, for the per-step queries of an optional
/// `(queries (<step> <hexsql>) ...)` element, `qs=<idx>:<mem result>~~<disk result>;;...`.
pub fn run_history_ext(line: &str, work: &Path, detail: bool, with_mem: bool) -> (Vec<String>, String) {
    let sx = Sexp::parse(line).expect("bad request");
    let items = sx.as_list().unwrap();
    let id = items[1].as_atom().unwrap().to_string();
    let opts = Opts::parse(&items[2]);
    let names: Vec<String> = items[3].as_list().unwrap()[1..]
        .iter()
        .map(|a| a.as_atom().unwrap().to_string())
        .collect();
    let mut disk = Disk::open(work.join(format!("h{id}")), opts);
    let mem = if with_mem { Some(Database::new_in_memory()) } else { None };
    let mut lines = vec![];
    let mut annotated: Vec<Sexp> = items[..4].to_vec();
    let mut first_step = 4;
    let mut queries: Vec<(usize, String)> = vec![];
    if let Some(l) = items.get(4).and_then(|x| x.as_list()) {
        if l.first().and_then(|a| a.as_atom()) == Some("queries") {
            first_step = 5;
            for q in &l[1..] {
                let qv = q.as_list().unwrap();
                queries.push((qv[0].as_atom().unwrap().parse().unwrap(), unhex_str(qv[1].as_atom().unwrap())));
            }
        }
    }
    // name -> number of columns (for the physical scan)
    let mut ncols: BTreeMap<String, usize> = BTreeMap::new();

    for (k, step) in items[first_step..].iter().enumerate() {
        let sv = step.as_list().unwrap();
        let kind = sv[0].as_atom().unwrap();
        let mut ann = step.clone();
        let mut out;
        let mut mem_fields = String::new();
        if let Some(why) = &disk.dead {
            if k == 0 {
                eprintln!("H{id}: initial open failed: {why}");
            }
            lines.push(format!("H{id}.{k}\tout=dead"));
            annotated.push(ann);
            continue;
        }
        let man_before = disk.manifest();
        let snap_before = disk.storage().verif_snapshot(None);
        match kind {
            "create" | "view" | "index" | "drop" | "insert" | "delete" => {
                let sql = unhex_str(sv[1].as_atom().unwrap());
                if let Some(m) = &mem {
                    mem_fields = format!("\tmout={}", outcome_text(&run_sql(&disk.rt, m, &sql)));
                }
                let o = disk.sql(&sql);
                out = outcome_text(&o);
                if kind == "create" && o.class() == "ok" {
                    ncols.insert(sv[2].as_atom().unwrap().to_string(), sv.len() - 3);
                }
                if detail {
                    if let Outcome::Err(e) | Outcome::Panic(e) = &o {
                        out.push_str(&format!("\tmsg={}", e.replace(['\t', '\n'], " ")));
                    }
                }
            }
            "compact" => {
                out = match disk.compact() {
                    Ok(()) => "ok:0".into(),
                    Err(e) => e.split(':').next().unwrap().to_string(),
                };
            }
            "vacuum" => {
                out = match disk.vacuum() {
                    Ok(()) => "ok:0".into(),
                    Err(e) => e.split(':').next().unwrap().to_string(),
                };
            }
            "reopen" => {
                disk.reopen();
                out = match &disk.dead {
                    None => "ok:0".into(),
                    Some(w) => format!("panic\tmsg={}", w.replace(['\t', '\n'], " ")),
                };
            }
            _ => panic!("unknown step {kind}"),
        }
        if disk.dead.is_some() {
            lines.push(format!("H{id}.{k}\tout={out}"));
            annotated.push(ann);
            continue;
        }
        // ---- observations ----
        let man = disk.manifest();
        let (_, snap_rs, snap_dvs) = disk.storage().verif_snapshot(None);
        let cat = disk.catalog();
        // table name -> id
        let ids: BTreeMap<String, u32> = cat
            .iter()
            .filter_map(|e| {
                let p: Vec<&str> = e.splitn(4, ':').collect();
                if p[2] == "t" { Some((p[1].to_string(), p[0].parse().unwrap())) } else { None }
            })
            .collect();
        // table name -> primary-key column (catalog text `id:name:t:col/ty/nn/pk,...`)
        let pks: BTreeMap<String, String> = cat
            .iter()
            .filter_map(|e| {
                let p: Vec<&str> = e.splitn(4, ':').collect();
                if p.len() < 4 || p[2] != "t" {
                    return None;
                }
                p[3].split(',').find_map(|c| {
                    let f: Vec<&str> = c.split('/').collect();
                    if f.len() == 4 && f[3] == "1" { Some((p[1].to_string(), f[0].to_string())) } else { None }
                })
            })
            .collect();
        let mut kseq = vec![];
        let mut tabs = vec![];
        let mut cnts = vec![];
        let mut phys_txt = vec![];
        let mut phys_all: BTreeMap<u32, BTreeMap<u32, Vec<(u32, Vec<String>)>>> = BTreeMap::new();
        for n in &names {
            let o = disk.sql(&format!("select * from {n}"));
            tabs.push(match &o {
                Outcome::Ok(rows) => format!("{n}={}", render_bag(rows)),
                Outcome::Err(_) => format!("{n}=absent"),
                Outcome::Panic(p) => format!("{n}=panic:{}", p.replace(['\t', '\n', ' '], "_")),
            });
            if let Outcome::Ok(_) = &o {
                let c = disk.sql(&format!("select count(*) from {n}"));
                cnts.push(format!("{n}={}", outcome_text(&c)));
                // the ordered scan of a keyed table: key column in the order returned (the planner
                // drops the sort on the disk engine and relies on the merging scan)
                if let Some(pk) = pks.get(n) {
                    match disk.sql(&format!("select {pk} from {n} order by {pk}")) {
                        Outcome::Ok(rows) => {
                            let ks: Vec<String> = rows.iter().map(|r| r.first().cloned().unwrap_or_default()).collect();
                            kseq.push(format!("{n}={}", ks.join("|")));
                        }
                        Outcome::Err(_) => kseq.push(format!("{n}=!err")),
                        Outcome::Panic(_) => kseq.push(format!("{n}=!panic")),
                    }
                }
            }
            if let (Some(tid), Some(nc)) = (ids.get(n), ncols.get(n)) {
                match disk.phys(*tid, *nc) {
                    Ok(m) => {
                        for (rs, rows) in &m {
                            let pos: Vec<String> = rows.iter().map(|x| x.0.to_string()).collect();
                            phys_txt.push(format!("{tid}.{rs}:{}", pos.join(",")));
                        }
                        phys_all.insert(*tid, m);
                    }
                    Err(e) => phys_txt.push(format!("{tid}:ERR:{}", e.replace(['\t', '\n', ' '], "_"))),
                }
            }
        }
        let dvtxt: Vec<String> = snap_dvs
            .iter()
            .map(|(t, r, d)| {
                let rows = disk.storage().verif_dv_rows(*t, *d).unwrap_or_default();
                format!("{t}.{r}:{}", rows.iter().map(|x| x.to_string()).collect::<Vec<_>>().join(","))
            })
            .collect();
        // ---- annotations for the model ----
        let new_recs: Vec<String> = if kind == "reopen" { vec![] } else { man[man_before.len().min(man.len())..].to_vec() };
        if kind == "insert" {
            // new row-sets of this statement and the number of rows each holds
            let tname = sv[2].as_atom().unwrap();
            let mut parts = vec![Sexp::atom("parts")];
            if let Some(tid) = ids.get(tname) {
                for r in &new_recs {
                    if let Some(x) = r.strip_prefix("AR:") {
                        let rs: u32 = x.split('.').nth(1).unwrap().parse().unwrap();
                        let n = phys_all.get(tid).and_then(|m| m.get(&rs)).map(|v| v.len()).unwrap_or(0);
                        parts.push(Sexp::atom(n.to_string()));
                    }
                }
            }
            if let Sexp::List(v) = &mut ann {
                v.push(Sexp::List(parts));
            }
        }
        if kind == "compact" {
            // in commit order: the pass visits the tables in hash-map order
            let mut sel: Vec<(String, Vec<String>)> = vec![];
            for r in &new_recs {
                if r == "B" {
                    sel.push((String::new(), vec![]));
                }
                if let Some(x) = r.strip_prefix("DR:") {
                    let mut p = x.split('.');
                    let (t, rs) = (p.next().unwrap().to_string(), p.next().unwrap().to_string());
                    let last = sel.last_mut().unwrap();
                    last.0 = t;
                    last.1.push(rs);
                }
            }
            sel.retain(|x| !x.0.is_empty());
            if let Sexp::List(v) = &mut ann {
                for (t, rss) in sel {
                    let mut l = vec![Sexp::atom(t)];
                    l.extend(rss.into_iter().map(Sexp::atom));
                    v.push(Sexp::List(l));
                }
            }
        }
        if let Some(m) = &mem {
            let mut mt = vec![];
            for n in &names {
                let o = run_sql(&disk.rt, m, &format!("select * from {n}"));
                mt.push(match &o {
                    Outcome::Ok(rows) => format!("{n}={}", render_bag(rows)),
                    Outcome::Err(_) => format!("{n}=absent"),
                    Outcome::Panic(p) => format!("{n}=panic:{}", p.replace(['\t', '\n', ' '], "_")),
                });
            }
            mem_fields.push_str(&format!("\tmtabs={}", mt.join(";")));
            let mut qs = vec![];
            for (qi, (at, sql)) in queries.iter().enumerate() {
                if *at == k {
                    let a = query_text(&run_sql(&disk.rt, m, sql));
                    let b = query_text(&disk.sql(sql));
                    if a != b {
                        // counterfactuals for the attribution of an engine difference: the disk
                        // answer with the optimizer off (no key-range scan, no order elimination,
                        // no cost-based join choice), and both plans
                        let _ = disk.sql("pragma disable_optimizer");
                        let c = query_text(&disk.sql(sql));
                        let _ = disk.sql("pragma enable_optimizer");
                        let plan = |o: Outcome| match o {
                            Outcome::Ok(rows) => rows
                                .first()
                                .and_then(|r| r.first())
                                .and_then(|v| v.strip_prefix("s:").map(|h| unhex_str(h)))
                                .unwrap_or_default()
                                .replace(['\t', '\n', ';', '~'], " "),
                            _ => "?".into(),
                        };
                        let pm = plan(run_sql(&disk.rt, m, &format!("explain {sql}")));
                        let pd = plan(disk.sql(&format!("explain {sql}")));
                        qs.push(format!("{qi}:{a}~~{b}~~{c}~~{pm}~~{pd}"));
                    } else {
                        qs.push(format!("{qi}:{a}~~{b}"));
                    }
                }
            }
            mem_fields.push_str(&format!("\tqs={}", qs.join(";;")));
        }
        let _ = snap_before;
        let rs_txt: Vec<String> = snap_rs.iter().map(|(t, r)| format!("{t}.{r}")).collect();
        lines.push(format!(
            "H{id}.{k}\tout={out}{mem_fields}\ttabs={}\tkseq={}\tcnt={}\tman={}\tcat={}\trs={}\tdv={}\tphys={}",
            tabs.join(";"),
            kseq.join(";"),
            cnts.join(";"),
            man.join(" "),
            cat.join(" "),
            rs_txt.join(" "),
            dvtxt.join(" "),
            phys_txt.join(" ")
        ));
        annotated.push(ann);
    }
    disk.db = None;
    let _ = std::fs::remove_dir_all(&disk.path);
    (lines, Sexp::List(annotated).to_string())
}
