//! C05 harness: the same statement sequence on `Database::new_in_memory()` and on the on-disk
//! engine (several layouts; forced compaction / vacuum / reopen only touch the disk side).
//! `c05 run <requests> <workdir> <impl_out> <model_req>`
#[path = "../store_common.rs"]
mod store_common;

use std::io::Write;
use std::path::Path;

fn main() {
    let args: Vec<String> = std::env::args().collect();
    match args[1].as_str() {
        "run" => {
            let mut out = std::fs::File::create(&args[4]).unwrap();
            let mut mreq = std::fs::File::create(&args[5]).unwrap();
            for line in rlverif::read_lines(&args[2]) {
                let (lines, ann) = store_common::run_history_ext(&line, Path::new(&args[3]), true, true);
                for l in lines {
                    writeln!(out, "{l}").unwrap();
                }
                writeln!(mreq, "{ann}").unwrap();
            }
        }
        _ => panic!("usage: c05 run <requests> <workdir> <impl_out> <model_req>"),
    }
}
