//! C10 harness: several sessions issuing statements through `Database::run` under the
//! deterministic scheduler.  `c10 gen <n> <out>`, `c10 run <cases>`, `c10 mt <iterations>`
//! (supporting evidence: result delivery on a multi-thread runtime).
#[path = "sched_common/mod.rs"]
mod sched_common;
use rlverif::*;
use sched_common::*;

pub const GATES: &[&str] = &[
    "cmd.begin", "db.bound", "txn.lock.begin", "txn.pinned", "txn.locked", "vm.commit.begin", "vm.committed",
    "ddl.drop.applied", "ddl.create.begin", "cp.pass.begin", "cp.table", "cp.locked", "cp.pass.end",
];

fn gates() -> Vec<String> {
    GATES.iter().map(|s| s.to_string()).collect()
}

fn case(id: &str, setup: Vec<Cmd>, actors: Vec<Vec<Cmd>>, script: Vec<(usize, &str)>) -> Case {
    Case {
        id: id.into(),
        gate: gates(),
        setup,
        actors,
        sched: vec![],
        rng: 0,
        sticky: 0,
        script: script.into_iter().map(|(a, p)| (a, p.to_string())).collect(),
        target: 0,
    }
}

fn witnesses() -> Vec<Case> {
    vec![
        // two CREATE TABLE of the same name both pass the binder's existence check
        case(
            "w-create-create",
            vec![Cmd::Create("t1".into())],
            vec![vec![Cmd::Create("t3".into())], vec![Cmd::Create("t3".into())]],
            vec![(1, "db.bound"), (2, "db.bound"), (1, "end"), (2, "end")],
        ),
        // DROP TABLE commits while a compaction of the same table (all rows deleted: nothing to
        // add, only DeleteRowSet ops) is between selecting its inputs and committing
        case(
            "w-drop-vs-compaction",
            vec![
                Cmd::Create("t1".into()),
                Cmd::Insert("t1".into(), vec![1, 2]),
                Cmd::Insert("t1".into(), vec![3]),
                Cmd::Delete("t1".into(), "all".into(), 0),
            ],
            vec![vec![Cmd::Compact], vec![Cmd::Drop("t1".into())]],
            vec![(1, "vm.commit.begin"), (2, "end"), (1, "end")],
        ),
        // an INSERT that has pinned and written its files commits after a DROP of its table
        case(
            "w-drop-vs-insert",
            vec![Cmd::Create("t1".into()), Cmd::Insert("t1".into(), vec![1])],
            vec![vec![Cmd::Insert("t1".into(), vec![2])], vec![Cmd::Drop("t1".into())]],
            vec![(1, "vm.commit.begin"), (2, "end"), (1, "end")],
        ),
        // DROP TABLE builds its changeset (DeleteDV of the delete vector it sees) from its pinned
        // snapshot; a compaction commits in between and deletes that delete vector (it does so
        // since /repo 5071ff5); the DROP's phase A then unwraps a missing entry in
        // `Snapshot::delete_dv`
        case(
            "w-drop-dv-vs-compaction",
            vec![
                Cmd::Create("t1".into()),
                Cmd::Insert("t1".into(), vec![1, 2]),
                Cmd::Insert("t1".into(), vec![3, 4]),
                Cmd::Delete("t1".into(), "lt".into(), 3),
            ],
            vec![vec![Cmd::Drop("t1".into())], vec![Cmd::Compact]],
            vec![(2, "cp.pass.begin"), (1, "vm.commit.begin"), (2, "end"), (1, "end")],
        ),
        // two sessions DROP the same table: both are bound before either applies; the second one's
        // executors are built for a table that is gone (`Builder::new` unwraps the catalog entry)
        case(
            "w-drop-drop",
            vec![Cmd::Create("t1".into()), Cmd::Insert("t1".into(), vec![1])],
            vec![vec![Cmd::Drop("t1".into())], vec![Cmd::Drop("t1".into())]],
            vec![(1, "db.bound"), (2, "db.bound"), (1, "end"), (2, "end")],
        ),
        // three overlapping DELETEs on rows of one row-set: X (session 3) scans; A deletes X's row
        // and commits; B deletes ANOTHER row of the same row-set and commits; only then X takes the
        // lock and commits — X must be refused (its row is already deleted), whatever the youngest
        // delete vector of the row-set says
        case(
            "w-three-deleters",
            vec![Cmd::Create("t1".into()), Cmd::Insert("t1".into(), vec![1, 2, 3])],
            vec![
                vec![Cmd::Delete("t1".into(), "eq".into(), 1)],
                vec![Cmd::Delete("t1".into(), "eq".into(), 2)],
                vec![Cmd::Delete("t1".into(), "eq".into(), 1)],
            ],
            vec![(3, "txn.lock.begin"), (1, "end"), (2, "end"), (3, "end")],
        ),
        // purely sequential: DELETE, compaction, DROP, reopen
        case(
            "w-seq-dv-compact-drop",
            vec![
                Cmd::Create("t1".into()),
                Cmd::Insert("t1".into(), vec![1, 2]),
                Cmd::Insert("t1".into(), vec![3]),
                Cmd::Delete("t1".into(), "eq".into(), 1),
                Cmd::Compact,
                Cmd::Drop("t1".into()),
            ],
            vec![],
            vec![],
        ),
    ]
}

/// Three or four DELETE sessions on rows of ONE row-set, with overlapping targets: a session's
/// scan pins its snapshot before the session takes the table lock, so other DELETEs (of the same
/// row and of other rows of the row-set) commit between a session's scan and its commit.
fn gen_deleters_case(r: &mut Rng, k: usize) -> Case {
    let n = r.range(3, 4) as usize;
    let mut setup = vec![Cmd::Create("t1".into()), Cmd::Insert("t1".into(), vec![1, 2, 3])];
    if r.chance(1, 3) {
        setup.push(Cmd::Insert("t1".into(), vec![4, 5]));
    }
    let mut actors = vec![];
    for i in 0..n {
        // at least two sessions aim at row 1, one at another row of the same row-set
        let key = match i {
            0 => 1,
            1 => *r.pick(&[2, 3]),
            2 => 1,
            _ => *r.pick(&[1, 2, 3, 4]),
        };
        let mut a = vec![Cmd::Delete("t1".into(), "eq".into(), key)];
        if r.chance(1, 3) {
            a.push(Cmd::Count("t1".into()));
        }
        actors.push(a);
    }
    Case {
        id: format!("d{k}"),
        gate: gates(),
        setup,
        actors,
        sched: vec![],
        rng: r.next() | 1,
        sticky: *r.pick(&[0, 30, 60]),
        script: vec![],
        target: 0,
    }
}

fn gen_case(r: &mut Rng, k: usize) -> Case {
    if k % 5 == 4 {
        return gen_deleters_case(r, k);
    }
    // restricted = the fragment of `serializable_partial`: INSERT, SELECT count, CREATE/DROP of
    // distinct names; otherwise same-name DDL, DELETE and a compactor may join
    let restricted = r.chance(1, 2);
    let setup = vec![
        Cmd::Create("t1".into()),
        Cmd::Create("t2".into()),
        Cmd::Insert("t1".into(), vec![1, 2]),
        Cmd::Insert("t2".into(), vec![101]),
    ];
    let n_sess = r.range(2, 3) as usize;
    let mut actors = vec![];
    let mut next = 10;
    let mut fresh_name = 3;
    let mut dropped_t2 = false;
    for _ in 0..n_sess {
        let n_cmd = r.range(1, 3);
        let mut a = vec![];
        for _ in 0..n_cmd {
            let t = if r.chance(2, 3) { "t1" } else { "t2" };
            let base = if t == "t1" { 0 } else { 100 };
            let c = match r.below(if restricted { 5 } else { 8 }) {
                0 | 1 => {
                    next += 1;
                    Cmd::Insert(t.into(), vec![base + next])
                }
                2 => Cmd::Count(t.into()),
                3 => {
                    fresh_name += 1;
                    Cmd::Create(format!("t{fresh_name}"))
                }
                4 => {
                    if !dropped_t2 {
                        dropped_t2 = true;
                        Cmd::Drop("t2".into())
                    } else {
                        Cmd::Count("t1".into())
                    }
                }
                5 => Cmd::Create("t9".into()),
                6 => Cmd::Delete(t.into(), "eq".into(), base + r.range(1, 2) as i32),
                _ => Cmd::Drop("t2".into()),
            };
            a.push(c);
        }
        actors.push(a);
    }
    if !restricted && r.chance(1, 2) {
        actors.push(vec![Cmd::Compact]);
    }
    Case {
        id: format!("{}{k}", if restricted { "r" } else { "g" }),
        gate: gates(),
        setup,
        actors,
        sched: vec![],
        rng: r.next() | 1,
        sticky: *r.pick(&[0, 50, 80]),
        script: vec![],
        target: 0,
    }
}

/// Supporting evidence only: on a multi-thread runtime `Builder::spawn` creates the broadcast
/// channel with an active receiver, spawns the producer, then deactivates the receiver — chunks
/// the producer has already queued are dropped.  Counts how many of `n` identical SELECTs come
/// back empty.
fn multi_thread_probe(n: usize) {
    let rt = tokio::runtime::Builder::new_multi_thread().worker_threads(4).enable_all().build().unwrap();
    let db = risinglight::Database::new_in_memory();
    let (mut empty, mut full, mut err) = (0, 0, 0);
    rt.block_on(async {
        let _ = db.run("create table t (v int)").await;
        let _ = db.run("insert into t values (1),(2),(3)").await;
        for _ in 0..n {
            match db.run("select v from t").await {
                Ok(chunks) => {
                    let rows: usize = chunks.iter().map(|c| c.data_chunks().iter().map(|d| d.cardinality()).sum::<usize>()).sum();
                    if rows == 3 {
                        full += 1
                    } else if rows == 0 {
                        empty += 1
                    } else {
                        err += 1
                    }
                }
                Err(_) => err += 1,
            }
        }
    });
    println!("(mt (n {n}) (full {full}) (empty {empty}) (other {err}))");
}

fn main() {
    let args: Vec<String> = std::env::args().collect();
    match args[1].as_str() {
        "gen" => {
            let n: usize = args[2].parse().unwrap();
            let mut r = Rng::from_env();
            let mut out = String::new();
            for w in witnesses() {
                out += &w.to_sexp();
                out.push('\n');
            }
            for k in 0..n {
                out += &gen_case(&mut r, k).to_sexp();
                out.push('\n');
            }
            std::fs::write(&args[3], out).unwrap();
        }
        "run" => {
            let dir = work_dir("c10");
            for (i, line) in read_lines(&args[2]).iter().enumerate() {
                let case = Case::parse(line);
                let o = run_case(&case, &dir.join(format!("db{i}")));
                println!("{}", render_trace(&case, &o));
                let _ = std::fs::remove_dir_all(dir.join(format!("db{i}")));
            }
            let _ = std::fs::remove_dir_all(&dir);
        }
        "mt" => multi_thread_probe(args[2].parse().unwrap()),
        _ => panic!("usage"),
    }
}
