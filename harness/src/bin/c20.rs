//! C20 harness: COPY … TO / COPY … FROM on the real implementation.
//!
//!   c20 gen <tier> <out>            request file (PRNG seeded by VERIF_SEED)
//!   c20 run <workdir> <requests>    one answer line per request
//!
//! requests:
//!   tbl <d> <q> <e|-> <h> <types,> <row;row;…>     cells in the c19 wire format, `-` = no rows
//!       → file:<hex|-> import:<rows|err|panic> rt:<bool>
//!   imp <d> <q> <e|-> <h> <types,> <hex csv|->     COPY FROM a given text
//!       → import:<rows|err|panic>
#[allow(dead_code)]
#[path = "c19.rs"]
mod v;

use rlverif::risinglight::array::*;
use rlverif::risinglight::storage::{Storage, StorageImpl, Table, Transaction};
use rlverif::risinglight::types::*;
use rlverif::*;
use v::{dec, enc, gen_val, hex_or_dash};

const TYPES: &[&str] = &["bool", "i16", "i32", "i64", "f64", "str", "blob", "dec", "date", "ts", "iv"];

fn sql_type(ty: &str) -> String {
    if let Some(k) = ty.strip_prefix("decs") {
        return format!("decimal(28,{k})");
    }
    (match ty {
        "bool" => "boolean",
        "i16" => "smallint",
        "i32" => "int",
        "i64" => "bigint",
        "f64" => "double",
        "str" => "varchar",
        "blob" => "blob",
        "dec" => "decimal",
        "date" => "date",
        "ts" => "timestamp",
        "iv" => "interval",
        _ => panic!("type {ty}"),
    })
    .to_string()
}

fn sql_char(b: u8) -> String {
    if b == b'\'' { "''''".into() } else { format!("'{}'", b as char) }
}

fn opts_sql(d: u8, q: u8, e: Option<u8>, h: bool) -> String {
    let mut s = format!("( FORMAT csv, DELIMITER {}, QUOTE {}", sql_char(d), sql_char(q));
    if let Some(e) = e {
        s += &format!(", ESCAPE {}", sql_char(e));
    }
    if h {
        s += ", HEADER true";
    }
    s + " )"
}

fn create(rt: &tokio::runtime::Runtime, db: &risinglight::Database, name: &str, types: &[&str]) -> Result<(), String> {
    let cols: Vec<String> = types.iter().enumerate().map(|(i, t)| format!("c{i} {}", sql_type(t))).collect();
    match run_sql(rt, db, &format!("create table {name}({})", cols.join(", "))) {
        Outcome::Ok(_) => Ok(()),
        Outcome::Err(e) | Outcome::Panic(e) => Err(e),
    }
}

fn load(rt: &tokio::runtime::Runtime, db: &risinglight::Database, name: &str, rows: &[Vec<DataValue>]) -> Result<(), String> {
    if rows.is_empty() {
        return Ok(());
    }
    catch(|| {
        rt.block_on(async {
            let id = db.verif_catalog().get_table_id_by_name("postgres", name).unwrap();
            let StorageImpl::InMemoryStorage(s) = db.verif_storage() else { panic!("storage") };
            let table = s.get_table(id).unwrap();
            let cols = table.columns().unwrap();
            let types: Vec<DataType> = cols.iter().map(|c| c.data_type()).collect();
            let mut b = DataChunkBuilder::new(&types, rows.len() + 1);
            for r in rows {
                let _ = b.push_row(r.iter().cloned());
            }
            let chunk = b.take().unwrap();
            let mut txn = table.write().await.unwrap();
            txn.append(chunk).await.unwrap();
            txn.commit().await.unwrap();
        })
    })
}

fn read_table(rt: &tokio::runtime::Runtime, db: &risinglight::Database, name: &str) -> Result<Vec<Vec<DataValue>>, String> {
    match catch(|| rt.block_on(db.run(&format!("select * from {name}")))) {
        Ok(Ok(chunks)) => Ok(chunks
            .last()
            .map(|c| {
                c.data_chunks()
                    .iter()
                    .flat_map(|ch| {
                        (0..ch.cardinality())
                            .map(|i| ch.arrays().iter().map(|a| a.get(i)).collect::<Vec<_>>())
                            .collect::<Vec<_>>()
                    })
                    .collect()
            })
            .unwrap_or_default()),
        Ok(Err(e)) => Err(format!("err {e}")),
        Err(p) => Err(format!("panic {p}")),
    }
}

/// f64 / decimal cells travel as their Display text (`s:<hex>`): the model treats them as opaque
/// text cells, the harness converts with the type's FromStr / Display.
fn enc_cell(v: &DataValue) -> String {
    match v {
        DataValue::Float64(x) => format!("s:{}", hex(x.to_string().as_bytes())),
        DataValue::Decimal(x) => format!("s:{}", hex(x.to_string().as_bytes())),
        other => enc(other),
    }
}

fn dec_cell(ty: &str, t: &str) -> DataValue {
    use std::str::FromStr;
    match (ty, t.strip_prefix("s:")) {
        ("f64", Some(h)) => DataValue::Float64(String::from_utf8(unhex(h).unwrap()).unwrap().parse::<F64>().unwrap()),
        (t, Some(h)) if t.starts_with("dec") => DataValue::Decimal(v::Dec::from_str(&String::from_utf8(unhex(h).unwrap()).unwrap()).unwrap()),
        _ => dec(t),
    }
}

fn show_rows(rows: &[Vec<DataValue>]) -> String {
    if rows.is_empty() {
        return "-".into();
    }
    let mut v: Vec<String> = rows.iter().map(|r| r.iter().map(enc_cell).collect::<Vec<_>>().join(",")).collect();
    v.sort();
    v.join(";")
}

fn parse_rows(types: &[String], s: &str) -> Vec<Vec<DataValue>> {
    if s == "-" {
        return vec![];
    }
    s.split(';').map(|r| r.split(',').enumerate().map(|(k, c)| dec_cell(&types[k], c)).collect()).collect()
}

struct Req {
    d: u8,
    q: u8,
    e: Option<u8>,
    h: bool,
    types: Vec<String>,
}

fn parse_req(t: &[&str]) -> Req {
    Req {
        d: t[1].parse().unwrap(),
        q: t[2].parse().unwrap(),
        e: if t[3] == "-" { None } else { Some(t[3].parse().unwrap()) },
        h: t[4] == "1",
        types: t[5].split(',').map(|x| x.to_string()).collect(),
    }
}

fn import_file(rt: &tokio::runtime::Runtime, db: &risinglight::Database, r: &Req, path: &str, target: &str) -> String {
    let types: Vec<&str> = r.types.iter().map(|x| x.as_str()).collect();
    if let Err(e) = create(rt, db, target, &types) {
        return format!("create-failed:{}", hex(e.as_bytes()));
    }
    let sql = format!("copy {target} from '{path}' {}", opts_sql(r.d, r.q, r.e, r.h));
    match run_sql(rt, db, &sql) {
        Outcome::Ok(_) => match read_table(rt, db, target) {
            Ok(rows) => show_rows(&rows),
            Err(e) => e.split(' ').next().unwrap().to_string(),
        },
        Outcome::Err(_) => "err".into(),
        Outcome::Panic(_) => "panic".into(),
    }
}

fn answer(line: &str, work: &str, k: usize) -> String {
    let t: Vec<&str> = line.split(' ').collect();
    let rt = runtime();
    let db = risinglight::Database::new_in_memory();
    let r = parse_req(&t);
    let path = format!("{work}/c20-{k}.csv");
    let _ = std::fs::remove_file(&path);
    match t[0] {
        "tbl" => {
            let rows = parse_rows(&r.types, t[6]);
            let types: Vec<&str> = r.types.iter().map(|x| x.as_str()).collect();
            if let Err(e) = create(&rt, &db, "t", &types) {
                return format!("create-failed:{}", hex(e.as_bytes()));
            }
            if let Err(e) = load(&rt, &db, "t", &rows) {
                return format!("load-failed:{}", hex(e.as_bytes()));
            }
            // The target path already exists: (1) it holds arbitrary old bytes, longer than any
            // export of this table; (2) a BIGGER table (the rows three times over) is exported to
            // it first; then the table itself is exported to the SAME path.  COPY TO must replace
            // the content: the bytes compared with the model and imported below are the file's.
            let mut stale = Vec::new();
            for k in 0..(200 + 40 * rows.len()) {
                stale.extend_from_slice(format!("stale{k},\"old\"\"row\",{k}\n").as_bytes());
            }
            stale.extend_from_slice(b"partial,\"line");
            std::fs::write(&path, &stale).unwrap();
            if !rows.is_empty() {
                let mut big = rows.clone();
                big.extend(rows.iter().cloned());
                big.extend(rows.iter().cloned());
                if create(&rt, &db, "t0", &types).is_ok() && load(&rt, &db, "t0", &big).is_ok() {
                    let _ = run_sql(&rt, &db, &format!("copy t0 to '{path}' {}", opts_sql(r.d, r.q, r.e, r.h)));
                }
            }
            let sql = format!("copy t to '{path}' {}", opts_sql(r.d, r.q, r.e, r.h));
            let exp = run_sql(&rt, &db, &sql);
            let file = std::fs::read(&path).ok();
            let out = match (&exp, &file) {
                (Outcome::Ok(_), Some(bytes)) => {
                    let imp = import_file(&rt, &db, &r, &path, "u");
                    // round trip decided with the values' own Eq (multiset of rows)
                    let rtok = match read_table(&rt, &db, "u") {
                        Ok(mut back) if !imp.starts_with("err") && !imp.starts_with("panic") && !imp.starts_with("create") => {
                            let mut orig = rows.clone();
                            orig.sort();
                            back.sort();
                            orig == back
                        }
                        _ => false,
                    };
                    format!("file:{} import:{} rt:{}", hex_or_dash(bytes), imp, rtok)
                }
                (Outcome::Ok(_), None) => "file:missing".into(),
                (Outcome::Err(_), _) => "export:err rt:false".into(),
                (Outcome::Panic(_), _) => "export:panic rt:false".into(),
            };
            let _ = std::fs::remove_file(&path);
            out
        }
        "imp" => {
            let bytes = if t[6] == "-" { vec![] } else { unhex(t[6]).unwrap() };
            std::fs::write(&path, bytes).unwrap();
            let out = format!("import:{}", import_file(&rt, &db, &r, &path, "u"));
            let _ = std::fs::remove_file(&path);
            out
        }
        _ => "bad-request".into(),
    }
}

// ---------------------------------------------------------------------------------------------
// generator
// ---------------------------------------------------------------------------------------------

fn gen_cell(r: &mut Rng, ty: &str, d: u8, q: u8, e: Option<u8>, hazard: u64) -> DataValue {
    // hazard: 0 none, 1 NULLs, 2 empty strings, 3 wild values (C19 findings, out-of-range)
    if hazard == 1 && r.chance(1, 4) {
        return DataValue::Null;
    }
    match ty {
        "str" => {
            // both kinds of quote characters whatever the QUOTE option is, alone and next to a
            // byte that forces quoting (delimiter, quote, newline)
            let other = if q == b'"' { '\'' } else { '"' };
            let specials: Vec<String> = vec![
                "\"".into(), "'".into(), other.to_string(), format!("{}{}", other, d as char), format!("{}{}", q as char, other),
                format!("{}\n", other), format!("a{}b{}", other, d as char), format!("{}{}", other, other),
                (d as char).to_string(), (q as char).to_string(), "\n".into(), "\r".into(), "\r\n".into(),
                e.map(|c| (c as char).to_string()).unwrap_or("\\".into()), "NULL".into(), " ".into(), "a".into(),
                "b".into(), "é".into(), "\u{10000}".into(), "null".into(), "0".into(), "#".into(), "\t".into(),
                format!("{}{}", q as char, q as char), "x".into(), "yz".into(),
            ];
            let n = if hazard == 2 && r.chance(1, 3) { 0 } else { 1 + r.below(4) };
            let mut s = String::new();
            for _ in 0..n {
                let p: &String = r.pick(&specials[..]); s.push_str(p);
            }
            DataValue::String(s.into())
        }
        "blob" if hazard != 3 => {
            let n = 1 + r.below(4);
            let v: Vec<u8> = (0..n).map(|_| *r.pick(&[0u8, 0x20, 0x41, 0x7e, 0x7f, 0x80, 0xff, b'x', 0x0a, d, q])).filter(|b| *b != 0x5c && *b != 0x27).collect();
            DataValue::Blob(if v.is_empty() { vec![1u8] } else { v }.into())
        }
        "date" if hazard != 3 => DataValue::Date(Date::new(match r.below(4) {
            0 => *r.pick(&[0, -1, 11016, -719528, -719529, 2932896, 2932897, -96465292, 95026236]),
            _ => r.range(-800_000, 3_000_000) as i32,
        })),
        "ts" if hazard != 3 => DataValue::Timestamp(Timestamp::new(
            r.range(-60_000_000_000, 250_000_000_000) * 1_000_000,
        )),
        "iv" if hazard != 3 => {
            let m = r.range(-40, 40) as i32;
            let dd = r.range(-40, 40) as i32;
            let ms = r.range(-90_000, 90_000) as i32 * 1000;
            let iv = v::mk_interval(m, dd, ms);
            // the zero interval prints as the empty text (hazard 2)
            if hazard != 2 && m == 0 && dd == 0 && ms == 0 {
                DataValue::Interval(v::mk_interval(1, 0, 0))
            } else {
                DataValue::Interval(iv)
            }
        }
        "dec" => {
            // declared without scale: values keep their own, often with many fraction digits
            if r.chance(1, 2) {
                DataValue::Decimal(v::mk_dec(r.chance(1, 3), r.below(1_000_000_000_000) as u128, 3 + r.below(9) as u32))
            } else {
                gen_val(r, "dec")
            }
        }
        t if t.starts_with("decs") => {
            // DECIMAL(28, k): a value the column can hold exactly (own scale <= k), moderate size
            let k: u32 = t[4..].parse().unwrap();
            let sc = r.below(k as u64 + 1) as u32;
            DataValue::Decimal(v::mk_dec(r.chance(1, 3), r.below(1_000_000_000_000) as u128, sc))
        }
        _ => gen_val(r, ty),
    }
}

fn gen_requests(tier: &str, out: &str) {
    let mut r = Rng::from_env();
    let (n_tbl, n_imp) = if tier == "thorough" { (24000, 12000) } else { (3200, 1600) };
    let delims = [b',', b',', b',', b',', b'|', b';', b'\t', b' ', b'a', b':', b'#', b'~', b'^', b'/', b'=', b'0', b'-'];
    let quotes = [b'"', b'"', b'"', b'"', b'`', b'$', b'\'', b'%', b'@', b'.', b'1'];
    let mut s = String::new();
    for _ in 0..n_tbl {
        // every option alone and in pairs (and a few triples), the others left at their defaults
        const COMBOS: &[(bool, bool, bool, bool)] = &[
            (false, false, false, false), (false, false, false, false), (true, false, false, false),
            (false, true, false, false), (false, true, false, false), (false, true, false, false),
            (false, false, true, false), (false, false, false, true), (true, true, false, false),
            (true, true, false, false), (true, false, true, false), (false, true, true, false),
            (false, true, true, false), (true, false, false, true), (false, true, false, true),
            (false, false, true, true), (true, true, true, false), (true, true, true, true),
        ];
        let (dn, qn, es, h) = COMBOS[(r.below(COMBOS.len() as u64)) as usize];
        let d = if dn { *r.pick(&delims[4..]) } else { b',' };
        let mut q = if qn { *r.pick(&quotes[4..]) } else { b'"' };
        while q == d {
            q = *r.pick(&quotes);
        }
        let e = if es { Some(*r.pick(&[b'!', b'\\', b'x', b'^', q, d, b'N', b'"', b'\''])) } else { None };
        // number texts are opaque to the model: keep option bytes out of their alphabet
        let numeric = |b: u8| b.is_ascii_alphanumeric() || b == b'.' || b == b'-' || b == b'+';
        let plain_opts = !(numeric(d) || numeric(q) || e.map(numeric).unwrap_or(false));
        let ncols = 1 + r.below(4) as usize;
        let mut types: Vec<&str> = (0..ncols)
            .map(|_| loop {
                let t = if r.chance(1, 3) { "str" } else { *r.pick(TYPES) };
                if plain_opts || !(t == "f64" || t == "dec") {
                    break t;
                }
            })
            .collect();
        // decimal mixes: 2..5 decimal columns, unscaled ones before / between / after scaled ones of
        // different scales, interleaved with the other columns (import rescales per COLUMN)
        if plain_opts && r.chance(1, 4) {
            const DECS: &[&str] = &["dec", "dec", "decs0", "decs1", "decs2", "decs4", "decs7"];
            let nd = 2 + r.below(4) as usize;
            let mut cols: Vec<&str> = (0..nd).map(|_| *r.pick(DECS)).collect();
            match r.below(4) {
                0 => cols[0] = "dec",
                1 => *cols.last_mut().unwrap() = "dec",
                2 if nd > 2 => cols[1] = "dec",
                _ => {}
            }
            // at least one scaled one next to an unscaled one
            if !cols.iter().any(|c| c.starts_with("decs")) {
                cols[nd - 1] = "decs2";
            }
            for c in types.iter().take(r.below(3) as usize) {
                let at = r.below(cols.len() as u64 + 1) as usize;
                cols.insert(at, c);
            }
            types = cols;
        }
        let nrows = r.below(7) as usize;
        let hazard = match r.below(10) {
            0 => 1,
            1 => 2,
            2 => 3,
            _ => 0,
        };
        let rows: Vec<String> = (0..nrows)
            .map(|_| {
                types
                    .iter()
                    .map(|t| {
                        let v = gen_cell(&mut r, t, d, q, e, hazard);
                        // opaque text cells: use the fixpoint display(parse(display v))
                        match &v {
                            DataValue::Float64(_) | DataValue::Decimal(_) => enc_cell(&dec_cell(t, &enc_cell(&v))),
                            _ => enc_cell(&v),
                        }
                    })
                    .collect::<Vec<_>>()
                    .join(",")
            })
            .collect();
        s += &format!(
            "tbl {} {} {} {} {} {}\n",
            d, q, e.map(|x| x.to_string()).unwrap_or("-".into()), h as u8, types.join(","),
            if rows.is_empty() { "-".to_string() } else { rows.join(";") }
        );
    }
    // reader on texts no writer produced
    let pieces: Vec<&str> = vec![
        "a", "b", "1", "2", "-3", "true", "false", "", " ", "NULL", "x y", "\"", "\"\"", "\"a\"", "\"a,b\"", "\"a\"\"b\"",
        "\"a\nb\"", "\"a\"b", "a\"b", "2020-01-05", "1 day", "é",
        "\"a\u{1}b\"", "\"\u{1},\"", "\u{1}", "\"x,\u{1}\u{1}y\"", "a\u{1}",
    ];
    for i in 0..n_imp {
        let d = if i % 3 == 0 { *r.pick(&delims) } else { b',' };
        let mut q = if i % 4 == 0 { *r.pick(&quotes) } else { b'"' };
        while q == d {
            q = *r.pick(&quotes);
        }
        let e = if r.chance(1, 10) { Some(b'\\') } else { None };
        let h = r.chance(1, 6);
        let ncols = 1 + r.below(3) as usize;
        let types: Vec<&str> = (0..ncols).map(|_| *r.pick(&["str", "str", "i32", "i64", "i16", "bool", "date", "iv", "ts"])).collect();
        let nrec = r.below(6);
        let mut text = String::new();
        for _ in 0..nrec {
            let nf = match r.below(8) {
                0 => ncols + 1,
                1 => ncols.saturating_sub(1).max(1),
                _ => ncols,
            };
            for k in 0..nf {
                if k > 0 {
                    text.push(d as char);
                }
                // mostly a text that is valid for the column's type, sometimes quoted, sometimes junk
                let valid: &[&str] = match types.get(k).copied().unwrap_or("str") {
                    "i32" | "i64" | "i16" => &["0", "1", "-3", "32767", "+5", "007", ""],
                    "bool" => &["true", "false", ""],
                    "date" => &["2020-01-05", "1999-12-31", "2000-02-29", "0001-01-01", "+10000-01-01", "2020-1-5", ""],
                    "iv" => &["1 day", "2 years 3 months", "-1 year", "5 seconds", "1_hour", ""],
                    "ts" => &["1991-01-08 04:05:06", "2000-01-01 00:00:00", "0044-03-15 12:00:00 BC", ""],
                    _ => &["a", "b", "x y", "NULL", "é", " ", ""],
                };
                let base: String = if r.chance(5, 6) { (*r.pick(valid)).to_string() } else { (*r.pick(&pieces)).to_string() };
                let p = match r.below(6) {
                    0 => format!("\"{}\"", base),
                    _ => base,
                };
                let other = if q == b'"' { "'" } else { "\"" };
                let p = p.replace('"', &(q as char).to_string()).replace(',', &(d as char).to_string()).replace('\u{1}', other);
                text.push_str(&p);
            }
            if r.chance(1, 10) {
                text.push(d as char);
            }
            text.push_str(*r.pick(&["\n", "\n", "\n", "\r\n", "\r", "\n\n", ""]));
        }
        s += &format!(
            "imp {} {} {} {} {} {}\n",
            d, q, e.map(|x| x.to_string()).unwrap_or("-".into()), h as u8, types.join(","),
            hex_or_dash(text.as_bytes())
        );
    }
    std::fs::write(out, s).unwrap();
}

fn main() {
    let args: Vec<String> = std::env::args().collect();
    match args[1].as_str() {
        "gen" => gen_requests(&args[2], &args[3]),
        "run" => {
            use std::io::Write;
            let out = std::io::stdout();
            let mut w = std::io::BufWriter::new(out.lock());
            std::fs::create_dir_all(&args[2]).unwrap();
            for (k, line) in read_lines(&args[3]).iter().enumerate() {
                let a = catch(|| answer(line, &args[2], k)).unwrap_or_else(|e| format!("harness-panic:{}", hex(e.as_bytes())));
                writeln!(w, "{a}").unwrap();
            }
        }
        "one" => println!("{}", answer(&args[3..].join(" "), &args[2], 0)),
        _ => panic!("usage"),
    }
}
