//! C14 harness: vectorised kernels / evaluator vs the Lean model (lean/Drivers/C14.lean).
//!
//!   c14 gen <n> <out> [profile]   write n requests (seeded by VERIF_SEED)
//!   c14 run <requests>            one answer line per request
//!
//! Request syntax: see lean/Drivers/C14.lean.  `k` requests are executed by calling the
//! `ArrayImpl` kernels directly (arrays built with `ArrayFromDataExt::from_data`, i.e. with
//! independent raw garbage under NULL slots); `e` requests are executed end to end: the arrays
//! are appended as one chunk to an in-memory table through the storage API (which keeps the
//! raw values of primitive arrays) and `(proj (list <expr>) (scan t ...))` is run unoptimised
//! through `Database::verif_run_plan`, i.e. through `executor::build`, `TableScanExecutor`,
//! `ProjectionExecutor` and `Evaluator::eval`.
//!
//! Answer: `<outcome> ;; <oracle>` with outcome = `ok <arr>` | `err` | `panic` and oracle the
//! model-free row-at-a-time comparison: `same` | `diff:<i>` | `diff:fault` | `-`.
use egg::Id;
use rlverif::risinglight::array::*;
use rlverif::risinglight::catalog::ColumnRefId;
use rlverif::risinglight::planner::{Expr, ExprAnalysis, RecExpr};
use rlverif::risinglight::storage::{Storage, StorageImpl, Table, Transaction};
use rlverif::risinglight::types::{DataType, DataValue};
use rlverif::risinglight::Database;
use rlverif::*;

// ---------------------------------------------------------------------------------------------
// arrays
// ---------------------------------------------------------------------------------------------

#[derive(Clone, Debug)]
enum Raw {
    B(bool),
    I(i64),
    S(String),
}

#[derive(Clone, Debug)]
struct WArr {
    ty: String, // null bool i16 i32 i64 str
    slots: Vec<(bool, Raw)>,
    null_len: usize,
}

fn parse_arr(s: &Sexp) -> WArr {
    let l = s.as_list().expect("array");
    let ty = l[0].as_atom().unwrap().to_string();
    if ty == "null" {
        return WArr { ty, slots: vec![], null_len: l[1].as_atom().unwrap().parse().unwrap() };
    }
    let slots = l[1..]
        .iter()
        .map(|a| {
            let a = a.as_atom().unwrap();
            let valid = a.starts_with('v');
            let r = &a[1..];
            let raw = match ty.as_str() {
                "bool" => Raw::B(r == "t"),
                "str" => Raw::S(String::from_utf8(unhex(r).unwrap()).unwrap()),
                _ => Raw::I(r.parse().unwrap()),
            };
            (valid, raw)
        })
        .collect();
    WArr { ty, slots, null_len: 0 }
}

/// Builds the real array: validity bitmap from a builder, raw values through `from_data`.
fn build_arr(w: &WArr) -> ArrayImpl {
    if w.ty == "null" {
        // as `Evaluator::eval` builds a NULL constant: builder of type Null, `push_n(n, Null)`
        let mut b = ArrayBuilderImpl::with_capacity(w.null_len, &DataType::Null);
        b.push_n(w.null_len, &DataValue::Null);
        return b.finish();
    }
    let mut vb = BoolArrayBuilder::with_capacity(w.slots.len());
    for (v, _) in &w.slots {
        vb.push(if *v { Some(&true) } else { None });
    }
    let valid = vb.finish().get_valid_bitmap().clone();
    macro_rules! ints {
        ($t:ty, $arr:ty, $new:ident) => {{
            let raws: Vec<$t> = w.slots.iter().map(|(_, r)| match r { Raw::I(x) => *x as $t, _ => unreachable!() }).collect();
            ArrayImpl::$new(<$arr>::from_data(raws.iter(), valid))
        }};
    }
    match w.ty.as_str() {
        "bool" => {
            let raws: Vec<bool> = w.slots.iter().map(|(_, r)| matches!(r, Raw::B(true))).collect();
            ArrayImpl::new_bool(BoolArray::from_data(raws.iter(), valid))
        }
        "i16" => ints!(i16, I16Array, new_int16),
        "i32" => ints!(i32, I32Array, new_int32),
        "i64" => ints!(i64, I64Array, new_int64),
        "str" => {
            let raws: Vec<&str> = w.slots.iter().map(|(_, r)| match r { Raw::S(s) => s.as_str(), _ => unreachable!() }).collect();
            ArrayImpl::new_string(StringArray::from_data(raws.iter().copied(), valid))
        }
        t => panic!("bad array type {t}"),
    }
}

/// The array of the request obtained as `slice(off..off+n)` of a longer array whose first `off`
/// rows are other rows (NULL and non-NULL mixed): what `DataChunk::slice` (LIMIT/OFFSET) hands to
/// the kernels. The kernels must not see any difference to a freshly built array.
fn prefix_slots(w: &WArr, off: usize) -> Vec<(bool, Raw)> {
    (0..off)
        .map(|j| {
            let valid = (j * 7 + off) % 3 != 0;
            let raw = match w.ty.as_str() {
                "bool" => Raw::B(j % 2 == 0),
                "str" => Raw::S("p".to_string()),
                _ => Raw::I((j % 5) as i64 + 1),
            };
            (valid, raw)
        })
        .collect()
}

fn with_prefix(w: &WArr, off: usize) -> WArr {
    if w.ty == "null" {
        return WArr { ty: w.ty.clone(), slots: vec![], null_len: w.null_len + off };
    }
    let mut slots = prefix_slots(w, off);
    slots.extend(w.slots.iter().cloned());
    WArr { ty: w.ty.clone(), slots, null_len: 0 }
}

fn build_sliced(w: &WArr, off: usize, n: usize) -> ArrayImpl {
    build_arr(&with_prefix(w, off)).slice(off..off + n)
}

fn show_arr(a: &ArrayImpl) -> String {
    fn slots<A: Array>(a: &A, f: impl Fn(&A::Item) -> String) -> String {
        (0..a.len())
            .map(|i| format!("{}{}", if a.is_null(i) { "n" } else { "v" }, f(a.get_raw(i))))
            .collect::<Vec<_>>()
            .join(" ")
    }
    match a {
        ArrayImpl::Null(a) => format!("(null {})", a.len()),
        ArrayImpl::Bool(a) => format!("(bool {})", slots(a.as_ref(), |b| if *b { "t".into() } else { "f".into() })),
        ArrayImpl::Int16(a) => format!("(i16 {})", slots(a.as_ref(), |x| x.to_string())),
        ArrayImpl::Int32(a) => format!("(i32 {})", slots(a.as_ref(), |x| x.to_string())),
        ArrayImpl::Int64(a) => format!("(i64 {})", slots(a.as_ref(), |x| x.to_string())),
        ArrayImpl::String(a) => format!("(str {})", slots(a.as_ref(), |s: &str| hex(s.as_bytes()))),
        other => format!("(other {})", other.type_string()),
    }
}

/// Drops raw values under NULL: the SQL value of the array.
fn strip_null_raw(s: &str) -> String {
    s.split(' ')
        .map(|t| if t.starts_with('n') && !t.starts_with("null") { "n".to_string() } else if t.starts_with('n') && t.ends_with(')') && !t.starts_with("null") { "n)".to_string() } else { t.to_string() })
        .collect::<Vec<_>>()
        .join(" ")
}

// ---------------------------------------------------------------------------------------------
// expressions
// ---------------------------------------------------------------------------------------------

fn parse_ty(s: &str) -> DataType {
    match s {
        "BOOLEAN" => DataType::Bool,
        "SMALLINT" => DataType::Int16,
        "INT" => DataType::Int32,
        "BIGINT" => DataType::Int64,
        "STRING" => DataType::String,
        t => panic!("bad type {t}"),
    }
}

fn parse_const(t: &str) -> DataValue {
    if t == "null" {
        return DataValue::Null;
    }
    let (tag, rest) = t.split_once(':').unwrap();
    match tag {
        "b" => DataValue::Bool(rest == "true"),
        "i16" => DataValue::Int16(rest.parse().unwrap()),
        "i32" => DataValue::Int32(rest.parse().unwrap()),
        "i64" => DataValue::Int64(rest.parse().unwrap()),
        "s" => DataValue::String(String::from_utf8(unhex(rest).unwrap()).unwrap().into()),
        _ => panic!("bad constant {t}"),
    }
}

/// Direct interpretation on the `ArrayImpl` kernels (what `Evaluator::eval` does, written out;
/// used for `k` requests and for the row-at-a-time oracle).
fn eval_direct(e: &Sexp, cols: &[ArrayImpl], n: usize) -> Result<ArrayImpl, String> {
    let er = |x: rlverif::risinglight::types::ConvertError| x.to_string();
    match e {
        Sexp::Atom(t) => {
            if let Some(i) = t.strip_prefix('#') {
                Ok(cols[i.parse::<usize>().unwrap()].clone())
            } else {
                let v = parse_const(t);
                let mut b = ArrayBuilderImpl::with_capacity(n, &v.data_type());
                b.push_n(n, &v);
                Ok(b.finish())
            }
        }
        Sexp::List(l) => {
            let op = l[0].as_atom().unwrap();
            match (op, l.len()) {
                ("not", 2) => eval_direct(&l[1], cols, n)?.not().map_err(er),
                ("neg", 2) => eval_direct(&l[1], cols, n)?.neg().map_err(er),
                ("isnull", 2) => {
                    let a = eval_direct(&l[1], cols, n)?;
                    Ok(ArrayImpl::new_bool(a.get_valid_bitmap().iter().map(|v| !v).collect()))
                }
                ("cast", 3) => {
                    let a = eval_direct(&l[2], cols, n)?;
                    a.cast(&parse_ty(l[1].as_atom().unwrap())).map_err(er)
                }
                ("like", 3) => {
                    let a = eval_direct(&l[1], cols, n)?;
                    let DataValue::String(p) = parse_const(l[2].as_atom().unwrap()) else { panic!("like pattern") };
                    a.like(&p).map_err(er)
                }
                ("repeat", 3) => {
                    let a = eval_direct(&l[1], cols, n)?;
                    let b = eval_direct(&l[2], cols, n)?;
                    a.repeat(&b).map_err(er)
                }
                ("replace", 4) => {
                    let a = eval_direct(&l[1], cols, n)?;
                    let DataValue::String(f) = parse_const(l[2].as_atom().unwrap()) else { panic!("replace from") };
                    let DataValue::String(t) = parse_const(l[3].as_atom().unwrap()) else { panic!("replace to") };
                    a.replace(&f, &t).map_err(er)
                }
                ("substring", 4) => {
                    let a = eval_direct(&l[1], cols, n)?;
                    let b = eval_direct(&l[2], cols, n)?;
                    let c = eval_direct(&l[3], cols, n)?;
                    a.substring(&b, &c).map_err(er)
                }
                ("if", 4) => {
                    let c = eval_direct(&l[1], cols, n)?;
                    let t = eval_direct(&l[2], cols, n)?;
                    let f = eval_direct(&l[3], cols, n)?;
                    c.select(&t, &f).map_err(er)
                }
                ("in", 3) => {
                    let x = eval_direct(&l[1], cols, n)?;
                    let vs = l[2].as_list().unwrap();
                    let mut vals = vec![];
                    for v in &vs[1..] {
                        vals.push(eval_direct(v, cols, n)?);
                    }
                    let mut acc = x.eq(&vals[0]).map_err(er)?;
                    for v in &vals[1..] {
                        let eq = x.eq(v).map_err(er)?;
                        acc = acc.or(&eq).unwrap();
                    }
                    Ok(acc)
                }
                (_, 3) => {
                    let a = eval_direct(&l[1], cols, n)?;
                    let b = eval_direct(&l[2], cols, n)?;
                    match op {
                        "+" => a.add(&b),
                        "-" => a.sub(&b),
                        "*" => a.mul(&b),
                        "/" => a.div(&b),
                        "%" => a.rem(&b),
                        "=" => a.eq(&b),
                        "<>" => a.ne(&b),
                        ">" => a.gt(&b),
                        "<" => a.lt(&b),
                        ">=" => a.ge(&b),
                        "<=" => a.le(&b),
                        "and" => a.and(&b),
                        "or" => a.or(&b),
                        "||" => a.concat(&b),
                        o => panic!("bad operator {o}"),
                    }
                    .map_err(er)
                }
                (o, k) => panic!("bad expression {o}/{k}"),
            }
        }
    }
}

/// The same expression as a RisingLight `RecExpr` over column references `cols[i]`.
fn to_recexpr(e: &Sexp, out: &mut RecExpr, cols: &[Id]) -> Id {
    match e {
        Sexp::Atom(t) => {
            if let Some(i) = t.strip_prefix('#') {
                cols[i.parse::<usize>().unwrap()]
            } else {
                out.add(Expr::Constant(parse_const(t)))
            }
        }
        Sexp::List(l) => {
            let op = l[0].as_atom().unwrap();
            match (op, l.len()) {
                ("not", 2) => { let a = to_recexpr(&l[1], out, cols); out.add(Expr::Not(a)) }
                ("neg", 2) => { let a = to_recexpr(&l[1], out, cols); out.add(Expr::Neg(a)) }
                ("isnull", 2) => { let a = to_recexpr(&l[1], out, cols); out.add(Expr::IsNull(a)) }
                ("cast", 3) => {
                    let ty = out.add(Expr::Type(parse_ty(l[1].as_atom().unwrap())));
                    let a = to_recexpr(&l[2], out, cols);
                    out.add(Expr::Cast([ty, a]))
                }
                ("like", 3) => {
                    let a = to_recexpr(&l[1], out, cols);
                    let p = out.add(Expr::Constant(parse_const(l[2].as_atom().unwrap())));
                    out.add(Expr::Like([a, p]))
                }
                ("repeat", 3) => {
                    let a = to_recexpr(&l[1], out, cols);
                    let b = to_recexpr(&l[2], out, cols);
                    out.add(Expr::Repeat([a, b]))
                }
                ("replace", 4) => {
                    let a = to_recexpr(&l[1], out, cols);
                    let f = out.add(Expr::Constant(parse_const(l[2].as_atom().unwrap())));
                    let t = out.add(Expr::Constant(parse_const(l[3].as_atom().unwrap())));
                    out.add(Expr::Replace([a, f, t]))
                }
                ("substring", 4) => {
                    let a = to_recexpr(&l[1], out, cols);
                    let b = to_recexpr(&l[2], out, cols);
                    let c = to_recexpr(&l[3], out, cols);
                    out.add(Expr::Substring([a, b, c]))
                }
                ("if", 4) => {
                    let c = to_recexpr(&l[1], out, cols);
                    let t = to_recexpr(&l[2], out, cols);
                    let f = to_recexpr(&l[3], out, cols);
                    out.add(Expr::If([c, t, f]))
                }
                ("in", 3) => {
                    let x = to_recexpr(&l[1], out, cols);
                    let vs = l[2].as_list().unwrap();
                    let ids: Vec<Id> = vs[1..].iter().map(|v| to_recexpr(v, out, cols)).collect();
                    let list = out.add(Expr::List(ids.into()));
                    out.add(Expr::In([x, list]))
                }
                (_, 3) => {
                    let a = to_recexpr(&l[1], out, cols);
                    let b = to_recexpr(&l[2], out, cols);
                    out.add(match op {
                        "+" => Expr::Add([a, b]),
                        "-" => Expr::Sub([a, b]),
                        "*" => Expr::Mul([a, b]),
                        "/" => Expr::Div([a, b]),
                        "%" => Expr::Mod([a, b]),
                        "=" => Expr::Eq([a, b]),
                        "<>" => Expr::NotEq([a, b]),
                        ">" => Expr::Gt([a, b]),
                        "<" => Expr::Lt([a, b]),
                        ">=" => Expr::GtEq([a, b]),
                        "<=" => Expr::LtEq([a, b]),
                        "and" => Expr::And([a, b]),
                        "or" => Expr::Or([a, b]),
                        "||" => Expr::StringConcat([a, b]),
                        o => panic!("bad operator {o}"),
                    })
                }
                (o, k) => panic!("bad expression {o}/{k}"),
            }
        }
    }
}

fn sql_type(ty: &str) -> &'static str {
    match ty {
        "bool" => "boolean",
        "i16" => "smallint",
        "i32" => "int",
        "i64" => "bigint",
        "str" => "varchar",
        t => panic!("no column type for {t}"),
    }
}

/// End-to-end: table with one chunk of raw arrays, unoptimised `(proj (list e) (scan t ..))`.
fn eval_e2e(rt: &tokio::runtime::Runtime, e: &Sexp, warrs: &[WArr], n: usize, off: usize) -> String {
    let r = catch(|| {
        rt.block_on(async {
            let db = Database::new_in_memory();
            let cols_sql: Vec<String> = if warrs.is_empty() {
                vec!["c0 int".into()]
            } else {
                warrs.iter().enumerate().map(|(i, w)| format!("c{i} {}", sql_type(&w.ty))).collect()
            };
            db.run(&format!("create table t({})", cols_sql.join(", "))).await.map_err(|e| e.to_string())?;
            let tid = db.verif_catalog().get_table_id_by_name("postgres", "t").ok_or("no table")?;
            let chunk: DataChunk = if warrs.is_empty() {
                // no input column: a dummy column gives the cardinality
                let a: I32Array = (0..(n + off) as i32).collect();
                [ArrayImpl::new_int32(a)].into_iter().collect()
            } else {
                warrs.iter().map(|w| build_arr(&with_prefix(w, off))).collect()
            };
            let StorageImpl::InMemoryStorage(st) = db.verif_storage() else { return Err("storage".to_string()) };
            let table = st.get_table(tid).map_err(|e| e.to_string())?;
            let mut txn = table.write().await.map_err(|e| e.to_string())?;
            txn.append(chunk).await.map_err(|e| e.to_string())?;
            txn.commit().await.map_err(|e| e.to_string())?;
            // plan
            let mut plan = RecExpr::default();
            let ncols = cols_sql.len();
            let col_ids: Vec<Id> = (0..ncols)
                .map(|i| plan.add(Expr::Column(ColumnRefId::from_table(tid, 0, i as u32))))
                .collect();
            let root_e = to_recexpr(e, &mut plan, &col_ids);
            let projs = plan.add(Expr::List(vec![root_e].into()));
            let t = plan.add(Expr::Table(tid));
            let scan_cols = plan.add(Expr::List(col_ids.clone().into()));
            let tru = plan.add(Expr::Constant(DataValue::Bool(true)));
            let mut scan = plan.add(Expr::Scan([t, scan_cols, tru]));
            if off > 0 {
                // `LIMIT n OFFSET off` below the projection: the chunk reaches the evaluator
                // through `DataChunk::slice(off..off+n)`
                let lim = plan.add(Expr::Constant(DataValue::Int32(n as i32)));
                let o = plan.add(Expr::Constant(DataValue::Int32(off as i32)));
                scan = plan.add(Expr::Limit([lim, o, scan]));
            }
            plan.add(Expr::Proj([projs, scan]));
            let chunks = db.verif_run_plan(&plan).await.map_err(|e| format!("ERR {e}"))?;
            Ok::<_, String>(chunks)
        })
    });
    match r {
        Err(_) => "panic".into(),
        // since /repo 4225762 a panic inside an operator task reaches the caller as
        // `Err("... operator panicked: ...")`; it stays the outcome class `panic` here
        Ok(Err(m)) if m.starts_with("ERR ") && m.contains("operator panicked") => "panic".into(),
        Ok(Err(m)) if m.starts_with("ERR ") => "err".into(),
        Ok(Err(m)) => format!("harness-error {m}"),
        Ok(Ok(chunks)) => {
            let rows: usize = chunks.iter().map(|c| c.cardinality()).sum();
            if rows < n {
                // the operator task died: its channel closed and the consumer saw end-of-stream
                return "panic".into();
            }
            if chunks.len() == 1 {
                format!("ok {}", show_arr(chunks[0].array_at(0)))
            } else if chunks.is_empty() {
                // n == 0: no chunk at all; the type is not observable
                "ok (empty)".into()
            } else {
                "harness-error multiple-chunks".into()
            }
        }
    }
}

fn run_direct(e: &Sexp, cols: &[ArrayImpl], n: usize) -> String {
    match catch(|| eval_direct(e, cols, n)) {
        Err(_) => "panic".into(),
        Ok(Err(_)) => "err".into(),
        Ok(Ok(a)) => format!("ok {}", show_arr(&a)),
    }
}

/// Model-free oracle: evaluating the batch must equal evaluating each row alone, as a batch of
/// one whose NULL slots carry the builder's default raw value.
fn oracle(e: &Sexp, warrs: &[WArr], n: usize, whole: &str) -> String {
    let clean_row = |i: usize| -> Vec<ArrayImpl> {
        warrs
            .iter()
            .map(|w| {
                if w.ty == "null" {
                    return build_arr(&WArr { ty: w.ty.clone(), slots: vec![], null_len: 1 });
                }
                let (v, r) = w.slots[i].clone();
                let r = if v { r } else {
                    match r { Raw::B(_) => Raw::B(false), Raw::I(_) => Raw::I(0), Raw::S(_) => Raw::S(String::new()) }
                };
                build_arr(&WArr { ty: w.ty.clone(), slots: vec![(v, r)], null_len: 0 })
            })
            .collect()
    };
    let singles: Vec<String> = (0..n).map(|i| run_direct(e, &clean_row(i), 1)).collect();
    if let Some(rest) = whole.strip_prefix("ok ") {
        // value at row i of the whole batch
        let inner = rest.trim_start_matches('(').trim_end_matches(')');
        let mut it = inner.split(' ');
        let ty = it.next().unwrap_or("");
        if ty == "null" || ty == "empty" || ty == "other" {
            return if singles.iter().all(|s| s.starts_with("ok")) { "same".into() } else { "diff:fault".into() };
        }
        let toks: Vec<&str> = it.filter(|t| !t.is_empty()).collect();
        for (i, s) in singles.iter().enumerate() {
            let Some(srest) = s.strip_prefix("ok ") else { return "diff:fault".into() };
            let sin = srest.trim_start_matches('(').trim_end_matches(')');
            let st: Vec<&str> = sin.split(' ').collect();
            let (a, b) = (toks.get(i).copied().unwrap_or("?"), st.get(1).copied().unwrap_or("?"));
            let norm = |t: &str| if t.starts_with('n') { "n".to_string() } else { t.to_string() };
            if norm(a) != norm(b) {
                return format!("diff:{i}");
            }
        }
        "same".into()
    } else {
        // a fault of the whole batch must be the fault of some row on its own
        if singles.iter().any(|s| s == whole) { "same".into() } else { "diff:fault".into() }
    }
}


// ---------------------------------------------------------------------------------------------
// constant folding: `eval_constant` (ExprAnalysis) vs run-time evaluation, optimizer on vs off
// ---------------------------------------------------------------------------------------------

fn show_value(v: &DataValue) -> String {
    match v {
        DataValue::String(s) => format!("s:{}", hex(s.as_bytes())),
        other => canon_value(other),
    }
}

/// The `constant` analysis of the expression's root e-class after adding it to an e-graph.
fn fold_real(e: &Sexp) -> String {
    let r = catch(|| {
        let mut expr = RecExpr::default();
        to_recexpr(e, &mut expr, &[]);
        let mut egraph = egg::EGraph::<Expr, ExprAnalysis>::new(ExprAnalysis::default());
        let id = egraph.add_expr(&expr);
        egraph[id].data.constant.clone()
    });
    match r {
        Err(_) => "panic".into(),
        Ok(None) => "none".into(),
        Ok(Some(v)) => format!("some {}", show_value(&v)),
    }
}

fn sql_of(e: &Sexp) -> Option<String> {
    Some(match e {
        Sexp::Atom(t) => {
            if t == "null" { "NULL".into() } else {
                let (tag, rest) = t.split_once(':')?;
                match tag {
                    "b" => rest.to_string(),
                    "i32" => if rest.starts_with('-') { format!("({rest})") } else { rest.to_string() },
                    "i16" => format!("cast({rest} as smallint)"),
                    "i64" => format!("cast({rest} as bigint)"),
                    "s" => {
                        let txt = String::from_utf8(unhex(rest)?).ok()?;
                        if txt.contains('\'') || txt.contains('\n') { return None; }
                        format!("'{txt}'")
                    }
                    _ => return None,
                }
            }
        }
        Sexp::List(l) => {
            let op = l[0].as_atom()?;
            match (op, l.len()) {
                ("not", 2) => format!("(not {})", sql_of(&l[1])?),
                ("neg", 2) => format!("(- {})", sql_of(&l[1])?),
                ("isnull", 2) => format!("({} is null)", sql_of(&l[1])?),
                ("cast", 3) => {
                    let t = match l[1].as_atom()? { "BOOLEAN" => "boolean", "SMALLINT" => "smallint", "INT" => "int", "BIGINT" => "bigint", _ => "varchar" };
                    format!("cast({} as {t})", sql_of(&l[2])?)
                }
                ("if", 4) => format!("(case when {} then {} else {} end)", sql_of(&l[1])?, sql_of(&l[2])?, sql_of(&l[3])?),
                ("in", 3) => {
                    let items: Option<Vec<String>> = l[2].as_list()?[1..].iter().map(sql_of).collect();
                    format!("({} in ({}))", sql_of(&l[1])?, items?.join(", "))
                }
                (_, 3) if ["+", "-", "*", "/", "%", "=", "<>", ">", "<", ">=", "<=", "and", "or", "||"].contains(&op) =>
                    format!("({} {op} {})", sql_of(&l[1])?, sql_of(&l[2])?),
                _ => return None,
            }
        }
    })
}

fn sql_value(rt: &tokio::runtime::Runtime, optimize: bool, sql: &str) -> String {
    let r = catch(|| {
        rt.block_on(async {
            let db = Database::new_in_memory();
            let chunks = if optimize {
                db.run(sql).await.map_err(|e| e.to_string())?.last().map(|c| c.data_chunks().to_vec()).unwrap_or_default()
            } else {
                let plans = db.verif_bind(sql).map_err(|e| format!("bind {e}"))?;
                db.verif_run_plan(plans.last().ok_or("no plan")?).await.map_err(|e| e.to_string())?
            };
            Ok::<_, String>(chunks)
        })
    });
    match r {
        Err(_) => "panic".into(),
        Ok(Err(m)) if m.starts_with("bind ") => "binderr".into(),
        Ok(Err(_)) => "err".into(),
        Ok(Ok(chunks)) => {
            let rows: usize = chunks.iter().map(|c| c.cardinality()).sum();
            if rows == 0 { return "norows".into(); }
            format!("ok {}", show_value(&chunks[0].array_at(0).get(0)))
        }
    }
}

/// `(fc <T> <operand|-> (whens (c r)*) <else|->)`: a searched / simple CASE. The SQL TEXT carries the
/// WHEN branches in source order and goes through the binder (optimizer on / off); the folded constant
/// and the direct evaluation use the desugaring "first WHEN outermost" built HERE (not by the binder),
/// with NULLs of the result type for an untyped NULL result / a missing ELSE (the binder's implicit cast).
fn run_case(rt: &tokio::runtime::Runtime, l: &[Sexp]) -> String {
    let ty = l[1].as_atom().unwrap();
    let op = &l[2];
    let whens = &l[3].as_list().unwrap()[1..];
    let el = &l[4];
    let is = |x: &Sexp, a: &str| x.as_atom() == Some(a);
    let typed_null = format!("(cast {ty} null)");
    let res = |r: &Sexp| if is(r, "null") || is(r, "-") { typed_null.clone() } else { r.to_string() };
    let mut desugared = res(el);
    for w in whens.iter().rev() {
        let w = w.as_list().unwrap();
        let cond = if is(op, "-") { w[0].to_string() } else { format!("(= {op} {})", w[0]) };
        desugared = format!("(if {cond} {} {desugared})", res(&w[1]));
    }
    let sql = (|| {
        let mut q = String::from("select case");
        if !is(op, "-") {
            q += &format!(" {}", sql_of(op)?);
        }
        for w in whens {
            let w = w.as_list()?;
            q += &format!(" when {} then {}", sql_of(&w[0])?, sql_of(&w[1])?);
        }
        if !is(el, "-") {
            q += &format!(" else {}", sql_of(el)?);
        }
        Some(q + " end")
    })();
    run_fold_sql(rt, &Sexp::parse(&desugared).expect("desugared case"), sql)
}

fn run_fold(rt: &tokio::runtime::Runtime, e: &Sexp) -> String {
    run_fold_sql(rt, e, sql_of(e).map(|sql| format!("select {sql}")))
}

fn run_fold_sql(rt: &tokio::runtime::Runtime, e: &Sexp, sql: Option<String>) -> String {
    let fold = fold_real(e);
    let rtv = match catch(|| eval_direct(e, &[], 1)) {
        Err(_) => "panic".to_string(),
        Ok(Err(_)) => "err".to_string(),
        Ok(Ok(a)) => format!("ok {}", show_value(&a.get(0))),
    };
    let (o, n) = match sql {
        Some(q) => (sql_value(rt, true, &q), sql_value(rt, false, &q)),
        None => ("-".to_string(), "-".to_string()),
    };
    format!("fold={fold} ;; rt={rtv} ;; sqlopt={o} ;; sqlnoopt={n}")
}

/// constant expression of (static) type `ty`
fn gen_const_expr(g: &mut Gen, ty: &str, depth: u32) -> String {
    g.expr(ty, &[], depth)
}

// ---------------------------------------------------------------------------------------------
// generator
// ---------------------------------------------------------------------------------------------

struct Gen {
    r: Rng,
    boundary: bool,
}

const LENS: &[usize] = &[0, 1, 1, 2, 2, 3, 3, 4, 5, 7, 8, 16, 31, 63, 64, 65, 127, 128, 129, 200];

impl Gen {
    fn len(&mut self) -> usize {
        if self.r.chance(1, 5) { self.r.below(201) as usize } else { *self.r.pick(LENS) }
    }
    fn int(&mut self, ty: &str) -> i64 {
        let (lo, hi) = match ty { "i16" => (i16::MIN as i64, i16::MAX as i64), "i32" => (i32::MIN as i64, i32::MAX as i64), _ => (i64::MIN, i64::MAX) };
        if self.boundary && self.r.chance(1, 3) {
            *self.r.pick(&[lo, hi, lo + 1, hi - 1, -1, 0, 1])
        } else {
            *self.r.pick(&[0, 0, 1, 1, -1, 2, -2, 3, 5, 7, 10, -10, 100])
        }
    }
    fn string(&mut self) -> String {
        (*self.r.pick(&["", "a", "ab", "b", "A", "é", "1", "-5", "true", "false", "+7", " 1", "32768", "99999999999", "abc", "a\nb", "axc", "a.c", "abab"])).to_string()
    }
    fn arr(&mut self, ty: &str, n: usize) -> String {
        let null_pct = *self.r.pick(&[0u64, 10, 30, 50, 100]);
        let garbage = self.r.chance(3, 4);
        let mut s = format!("({ty}");
        for _ in 0..n {
            let valid = !self.r.chance(null_pct, 100);
            let clean = !valid && !garbage;
            let raw = match ty {
                "bool" => (if !clean && self.r.chance(1, 2) { "t" } else { "f" }).to_string(),
                "str" => hex((if clean { String::new() } else { self.string() }).as_bytes()),
                _ => (if clean { 0 } else { self.int(ty) }).to_string(),
            };
            s += &format!(" {}{}", if valid { "v" } else { "n" }, raw);
        }
        s + ")"
    }
    fn like_pat(&mut self) -> String {
        hex(self.r.pick(&["a%", "%b%", "a_c", "a.c", "%", "", "a(", "_", "ab", "a_b", "%c", "a%b", "___", "%.%"]).as_bytes())
    }
    fn small_count(&mut self) -> i64 {
        *self.r.pick(&[-1i64, 0, 1, 2, 3])
    }
    /// an i32 array for `repeat` counts: small raw values everywhere (also under NULL: the
    /// kernel repeats on the raw value of every slot, a large one would exhaust memory)
    fn count_arr(&mut self, n: usize) -> String {
        let null_pct = *self.r.pick(&[0u64, 10, 50]);
        let mut s = String::from("(i32");
        for _ in 0..n {
            let valid = !self.r.chance(null_pct, 100);
            s += &format!(" {}{}", if valid { "v" } else { "n" }, self.small_count());
        }
        s + ")"
    }
    fn int_ty(&mut self) -> &'static str {
        *self.r.pick(&["i16", "i32", "i32", "i32", "i64"])
    }
    fn const_of(&mut self, ty: &str) -> String {
        match ty {
            "bool" => format!("b:{}", self.r.chance(1, 2)),
            "str" => format!("s:{}", hex(self.string().as_bytes())),
            t => format!("{t}:{}", self.int(t)),
        }
    }
    fn cast_name(ty: &str) -> &'static str {
        match ty { "bool" => "BOOLEAN", "i16" => "SMALLINT", "i32" => "INT", "i64" => "BIGINT", _ => "STRING" }
    }
    /// expression of (static) type `ty` over columns `cols` (their types), depth-bounded
    fn expr(&mut self, ty: &str, cols: &[String], depth: u32) -> String {
        let leaf = depth == 0 || self.r.chance(1, 4);
        if leaf {
            let same: Vec<usize> = cols.iter().enumerate().filter(|(_, t)| t.as_str() == ty).map(|(i, _)| i).collect();
            if !same.is_empty() && self.r.chance(4, 5) {
                return format!("#{}", self.r.pick(&same));
            }
            if self.r.chance(1, 12) {
                return format!("(cast {} null)", Self::cast_name(ty));
            }
            return self.const_of(ty);
        }
        let d = depth - 1;
        match ty {
            "bool" => match self.r.below(11) {
                10 => format!("(like {} s:{})", self.expr("str", cols, d), self.like_pat()),
                0 | 1 | 2 => {
                    let t = self.int_ty();
                    let t2 = if self.r.chance(1, 3) { self.int_ty() } else { t };
                    let op = *self.r.pick(&["=", "<>", ">", "<", ">=", "<="]);
                    format!("({op} {} {})", self.expr(t, cols, d), self.expr(t2, cols, d))
                }
                3 => format!("(and {} {})", self.expr("bool", cols, d), self.expr("bool", cols, d)),
                4 | 5 => format!("(or {} {})", self.expr("bool", cols, d), self.expr("bool", cols, d)),
                6 => format!("(not {})", self.expr("bool", cols, d)),
                7 => {
                    let t = *self.r.pick(&["bool", "i32", "i64", "str", "i16"]);
                    format!("(isnull {})", self.expr(t, cols, d))
                }
                8 => {
                    let t = self.int_ty();
                    format!("(cast BOOLEAN {})", self.expr(t, cols, d))
                }
                _ => {
                    let t = self.int_ty();
                    let k = 1 + self.r.below(3);
                    let items: Vec<String> = (0..k).map(|_| self.expr(t, cols, 0)).collect();
                    format!("(in {} (list {}))", self.expr(t, cols, d), items.join(" "))
                }
            },
            "str" => match self.r.below(6) {
                3 => format!("(substring {} {} {})", self.expr("str", cols, d), self.expr("i32", cols, d), self.expr("i32", cols, d)),
                4 => {
                    let f = hex(self.r.pick(&["a", "", "ab", "b", "x"]).as_bytes());
                    let t = hex(self.r.pick(&["", "z", "ab", "aa"]).as_bytes());
                    format!("(replace {} s:{f} s:{t})", self.expr("str", cols, d))
                }
                5 => format!("(repeat {} i32:{})", self.expr("str", cols, d), self.small_count()),
                0 => format!("(|| {} {})", self.expr("str", cols, d), self.expr("str", cols, d)),
                1 => {
                    let t = *self.r.pick(&["bool", "i32", "i64", "i16"]);
                    format!("(cast STRING {})", self.expr(t, cols, d))
                }
                _ => self.expr("str", cols, 0),
            },
            t => match self.r.below(10) {
                0..=4 => {
                    let op = *self.r.pick(&["+", "+", "-", "*", "/", "/", "%"]);
                    // operands of the same or a narrower type: the promoted type is `t`
                    let narrower: &[&str] = match t { "i16" => &["i16"], "i32" => &["i16", "i32", "i32"], _ => &["i16", "i32", "i64", "i64"] };
                    let (ta, tb) = if self.r.chance(1, 2) { (t, *self.r.pick(narrower)) } else { (*self.r.pick(narrower), t) };
                    format!("({op} {} {})", self.expr(ta, cols, d), self.expr(tb, cols, d))
                }
                5 | 6 => format!("(if {} {} {})", self.expr("bool", cols, d), self.expr(t, cols, d), self.expr(t, cols, d)),
                7 => if t == "i16" { self.expr(t, cols, 0) } else { format!("(neg {})", self.expr(t, cols, d)) },
                8 => {
                    let from = *self.r.pick(&["i16", "i32", "i64", "bool", "str"]);
                    format!("(cast {} {})", Self::cast_name(t), self.expr(from, cols, d))
                }
                _ => self.expr(t, cols, 0),
            },
        }
    }
}

/// A searched or simple CASE with 2–4 WHEN branches whose conditions OVERLAP (several TRUE ones), with
/// FALSE and NULL conditions among them, NULL results, and with or without ELSE.
fn gen_case(g: &mut Gen) -> String {
    let r = &mut g.r;
    let (ty, vals): (&str, Vec<String>) = match r.below(4) {
        0 => ("STRING", ["a", "b", "c", "d", "e"].iter().map(|s| format!("s:{}", hex(s.as_bytes()))).collect()),
        1 => ("BIGINT", (1..=5).map(|i| format!("i64:{}", i * 1000000007i64)).collect()),
        2 => ("BOOLEAN", vec!["b:true".into(), "b:false".into(), "b:true".into(), "b:false".into(), "b:true".into()]),
        _ => ("INT", (1..=5).map(|i| format!("i32:{i}")).collect()),
    };
    let n = 2 + r.below(3) as usize;
    // distinct results per branch (so that the branch taken is visible), sometimes NULL
    let results: Vec<String> = (0..n).map(|i| if r.chance(1, 7) { "null".to_string() } else { vals[i].clone() }).collect();
    let el = if r.chance(1, 3) { "-".to_string() } else if r.chance(1, 6) { "null".to_string() } else { vals[4].clone() };
    if r.chance(1, 3) {
        // simple CASE: `CASE x WHEN v …` with repeated / NULL values
        let x = r.range(1, 3);
        let ws: Vec<String> = results.iter().map(|res| {
            let v = if r.chance(1, 8) { "null".to_string() } else if r.chance(1, 2) { format!("i32:{x}") } else { format!("i32:{}", r.range(1, 3)) };
            format!("({v} {res})")
        }).collect();
        let op = if r.chance(1, 10) { "null".to_string() } else { format!("i32:{x}") };
        return format!("(fc {ty} {op} (whens {}) {el})", ws.join(" "));
    }
    // searched CASE: thresholds below / above one value a, TRUE / FALSE / NULL conditions mixed
    let a = r.range(-2, 12);
    let ws: Vec<String> = results.iter().map(|res| {
        let c = match r.below(8) {
            0 => "(cast BOOLEAN null)".to_string(),
            1 => format!("(> i32:{a} null)"),
            2 => "b:true".to_string(),
            3 => "b:false".to_string(),
            4 => format!("(<= i32:{a} i32:{})", r.range(-2, 12)),
            _ => format!("(> i32:{a} i32:{})", r.range(-4, 12)),
        };
        format!("({c} {res})")
    }).collect();
    format!("(fc {ty} - (whens {}) {el})", ws.join(" "))
}

fn gen_request(g: &mut Gen) -> String {
    g.boundary = g.r.chance(3, 10);
    if g.r.chance(1, 16) {
        return gen_case(g);
    }
    if g.r.chance(1, 8) {
        // constant expression: folding vs run time, optimizer on vs off
        let ty = *g.r.pick(&["i32", "i64", "bool", "bool", "str", "i16", "i32"]);
        let d = 1 + g.r.below(3) as u32;
        // IN is not folded by eval_constant but is desugared by the model: keep it out of this stream
        let mut e = gen_const_expr(g, ty, d);
        while e.contains("(in ") {
            e = gen_const_expr(g, ty, d);
        }
        if g.r.chance(1, 3) {
            // NULL literal operands (untyped NULL constant)
            e = match ty {
                "bool" => format!("({} {} null)", g.r.pick(&["and", "or"]), e),
                "str" => format!("(|| {e} null)"),
                _ => format!("({} {e} null)", g.r.pick(&["+", "*", "="])),
            };
        }
        return format!("(f {e})");
    }
    let n = g.len();
    if g.r.chance(1, 7) {
        // arrays that come out of `slice(off..off+n)` (direct kernels) or of LIMIT n OFFSET off
        // (end to end), off mostly not a multiple of 64: boolean-heavy expressions (comparison, AND,
        // OR, NOT, CASE, IN, LIKE use the word-wise bitmap kernels)
        let off = *g.r.pick(&[1usize, 3, 7, 31, 63, 64, 65, 100, 130]);
        let ncols = 1 + g.r.below(3) as usize;
        let tys: Vec<String> = (0..ncols).map(|_| (*g.r.pick(&["i32", "i32", "i64", "bool", "bool", "str"])).to_string()).collect();
        let out_ty = *g.r.pick(&["bool", "bool", "bool", "i32", "str"]);
        let depth = 1 + g.r.below(2) as u32;
        let e = g.expr(out_ty, &tys, depth);
        let n = if n == 0 { 1 } else { n };
        let arrs: Vec<String> = tys.iter().map(|t| g.arr(t, n)).collect();
        let kind = if g.r.chance(1, 2) { "ks" } else { "el" };
        return format!("({kind} {off} {n} {e} {})", arrs.join(" "));
    }
    if g.r.chance(1, 2) {
        // kernel request: one operator directly over columns
        let it = g.int_ty();
        let it2 = g.int_ty();
        let which = g.r.below(20);
        if which >= 16 {
            // string kernels
            return match which {
                16 => format!("(k {n} (like #0 s:{}) {})", g.like_pat(), g.arr("str", n)),
                17 => format!("(k {n} (substring #0 #1 #2) {} {} {})", g.arr("str", n), g.arr("i32", n), g.arr("i32", n)),
                18 => {
                    let f = hex(g.r.pick(&["a", "", "ab", "b", "x"]).as_bytes());
                    let t = hex(g.r.pick(&["", "z", "ab", "aa"]).as_bytes());
                    format!("(k {n} (replace #0 s:{f} s:{t}) {})", g.arr("str", n))
                }
                _ => format!("(k {n} (repeat #0 #1) {} {})", g.arr("str", n), g.count_arr(n)),
            };
        }
        let (e, tys): (String, Vec<&str>) = match which {
            0..=3 => (format!("({} #0 #1)", g.r.pick(&["+", "-", "*", "/", "%"])), vec![it, it2]),
            4 | 5 => (format!("({} #0 #1)", g.r.pick(&["=", "<>", ">", "<", ">=", "<="])), vec![it, it2]),
            6 => {
                let t = *g.r.pick(&["bool", "str"]);
                (format!("({} #0 #1)", g.r.pick(&["=", "<>", ">", "<", ">=", "<="])), vec![t, t])
            }
            7 => ("(and #0 #1)".into(), vec!["bool", "bool"]),
            8 | 9 => ("(or #0 #1)".into(), vec!["bool", "bool"]),
            10 => ("(not #0)".into(), vec!["bool"]),
            11 => ("(neg #0)".into(), vec![it]),
            12 | 13 => {
                let t = *g.r.pick(&["i16", "i32", "i64", "i32", "bool", "str"]);
                ("(if #0 #1 #2)".into(), vec!["bool", t, t])
            }
            14 => {
                let from = *g.r.pick(&["i16", "i32", "i64", "bool", "str", "null"]);
                let to = *g.r.pick(&["BOOLEAN", "SMALLINT", "INT", "BIGINT", "STRING"]);
                (format!("(cast {to} #0)"), vec![from])
            }
            _ => {
                let t = *g.r.pick(&["i32", "bool", "str", "null", "i64"]);
                if g.r.chance(1, 2) { ("(isnull #0)".into(), vec![t]) } else if t == "null" { ("(+ #0 #1)".into(), vec!["i32", "null"]) } else { ("(|| #0 #1)".into(), vec!["str", "str"]) }
            }
        };
        let arrs: Vec<String> = tys.iter().map(|t| if *t == "null" { format!("(null {n})") } else { g.arr(t, n) }).collect();
        format!("(k {n} {e} {})", arrs.join(" "))
    } else {
        let ncols = 1 + g.r.below(4) as usize;
        let tys: Vec<String> = (0..ncols).map(|_| (*g.r.pick(&["i32", "i32", "i64", "i16", "bool", "bool", "str"])).to_string()).collect();
        let out_ty = *g.r.pick(&["i32", "i64", "i16", "bool", "bool", "str", "i32"]);
        let depth = 1 + g.r.below(3) as u32;
        let e = g.expr(out_ty, &tys, depth);
        let arrs: Vec<String> = tys.iter().map(|t| g.arr(t, n)).collect();
        format!("(e {n} {e} {})", arrs.join(" "))
    }
}

fn main() {
    let args: Vec<String> = std::env::args().collect();
    match args[1].as_str() {
        "gen" => {
            let n: usize = args[2].parse().unwrap();
            let mut g = Gen { r: Rng::from_env(), boundary: false };
            let mut out = String::new();
            for _ in 0..n {
                out += &gen_request(&mut g);
                out.push('\n');
            }
            std::fs::write(&args[3], out).unwrap();
        }
        "run" => {
            let rt = runtime();
            let _ = strip_null_raw;
            for line in read_lines(&args[2]) {
                let req = Sexp::parse(&line).expect("request");
                let l = req.as_list().unwrap();
                let kind = l[0].as_atom().unwrap();
                if kind == "f" {
                    println!("{}", run_fold(&rt, &l[1]));
                    continue;
                }
                if kind == "fc" {
                    println!("{}", run_case(&rt, l));
                    continue;
                }
                // `ks` / `el`: as `k` / `e`, on arrays obtained by `slice(off..off+n)` / below LIMIT OFFSET
                let sliced = kind == "ks" || kind == "el";
                let off: usize = if sliced { l[1].as_atom().unwrap().parse().unwrap() } else { 0 };
                let l = if sliced { &l[1..] } else { &l[..] };
                let n: usize = l[1].as_atom().unwrap().parse().unwrap();
                let e = &l[2];
                let warrs: Vec<WArr> = l[3..].iter().map(parse_arr).collect();
                let cols: Vec<ArrayImpl> = if sliced {
                    match catch(|| warrs.iter().map(|w| build_sliced(w, off, n)).collect::<Vec<_>>()) {
                        Ok(c) => c,
                        Err(_) => { println!("panic ;; -"); continue; }
                    }
                } else {
                    warrs.iter().map(build_arr).collect()
                };
                let direct = run_direct(e, &cols, n);
                let whole = if kind == "k" || kind == "ks" { direct.clone() } else { eval_e2e(&rt, e, &warrs, n, off) };
                let orc = oracle(e, &warrs, n, &direct);
                // for `e` requests also report whether the direct interpretation agrees
                let agree = if kind == "k" || kind == "ks" || whole == direct || (whole == "ok (empty)" && direct.starts_with("ok")) { "" } else { " ;; e2e!=direct" };
                println!("{whole} ;; {orc}{agree}");
            }
        }
        _ => panic!("usage: c14 gen <n> <out> | c14 run <requests>"),
    }
}
