//! C11 harness: physical implementations of one operator against each other.
//!
//!   c11 gen <n> <requests-out> <meta-out>   generate cases (seeded by VERIF_SEED)
//!   c11 run <requests>                      execute every plan of every case on the REAL executors
//!
//! Request line (shared with the Lean driver `drv_c11`):
//!   (case <id> (tables (t (types i32 i64 ..) (c (r v ..) ..) (c ..)) ..) (plans <plan> ..))
//! Answer line: `<id>` then per plan TAB `<status> ; <rows>` with status ok | err | panic.
//! Plans use `$<table>` / `$<table>.<column>`; the harness patches the schema id (user tables
//! live in schema 1, which the plan text syntax cannot express) and runs the plan unoptimised
//! through `Database::verif_run_plan`.
use rlverif::risinglight::planner::{Expr, RecExpr};
use rlverif::*;

// ---------------------------------------------------------------------------------------------
// data
// ---------------------------------------------------------------------------------------------

#[derive(Clone, Copy, PartialEq, Eq, Debug)]
enum Ty {
    I16,
    I32,
    I64,
    Str,
    Bool,
}

impl Ty {
    fn tag(self) -> &'static str {
        match self {
            Ty::I16 => "i16",
            Ty::I32 => "i32",
            Ty::I64 => "i64",
            Ty::Str => "str",
            Ty::Bool => "bool",
        }
    }
    fn sql(self) -> &'static str {
        match self {
            Ty::I16 => "smallint",
            Ty::I32 => "int",
            Ty::I64 => "bigint",
            Ty::Str => "varchar",
            Ty::Bool => "boolean",
        }
    }
    fn of_tag(s: &str) -> Ty {
        match s {
            "i16" => Ty::I16,
            "i32" => Ty::I32,
            "i64" => Ty::I64,
            "str" => Ty::Str,
            "bool" => Ty::Bool,
            _ => panic!("bad type tag {s}"),
        }
    }
}

#[derive(Clone, Debug)]
struct TableData {
    types: Vec<Ty>,
    /// rows in canonical text, grouped in chunks
    chunks: Vec<Vec<Vec<String>>>,
}

fn canon_to_sql(c: &str) -> String {
    if c == "null" {
        return "NULL".into();
    }
    let (tag, rest) = c.split_once(':').unwrap();
    match tag {
        "i32" | "i64" | "i16" => rest.to_string(),
        "b" => rest.to_string(),
        "s" => format!("'{}'", String::from_utf8(unhex(rest).unwrap()).unwrap()),
        _ => panic!("bad canon {c}"),
    }
}

fn table_sexp(t: &TableData) -> String {
    let mut s = String::from("(t (types");
    for ty in &t.types {
        s.push(' ');
        s.push_str(ty.tag());
    }
    s.push(')');
    for c in &t.chunks {
        s.push_str(" (c");
        for r in c {
            s.push_str(" (r ");
            s.push_str(&r.join(" "));
            s.push(')');
        }
        s.push(')');
    }
    s.push(')');
    s
}

// ---------------------------------------------------------------------------------------------
// generator
// ---------------------------------------------------------------------------------------------

fn gen_cell(r: &mut Rng, ty: Ty, key: bool) -> String {
    let null_pct = if key { 20 } else { 25 };
    if r.chance(null_pct, 100) {
        return "null".into();
    }
    match ty {
        Ty::I16 => format!("i16:{}", if key { r.range(0, 3) } else { r.range(-4, 6) }),
        Ty::I32 => format!("i32:{}", if key { r.range(0, 3) } else { r.range(-4, 6) }),
        Ty::I64 => format!("i64:{}", if key { r.range(0, 3) } else { r.range(-4, 6) }),
        Ty::Str => format!("s:{}", hex(r.pick(&["", "a", "b", "ab"]).as_bytes())),
        Ty::Bool => format!("b:{}", r.chance(1, 2)),
    }
}

/// chunk sizes whose sum is n: the boundary shapes 1, 2, 3, 1023, 1024 and "rest".
fn gen_chunking(r: &mut Rng, n: usize) -> Vec<usize> {
    let mut left = n;
    let mut out = vec![];
    let style = r.below(5);
    while left > 0 {
        let want = match style {
            0 => 1024,
            1 => 1,
            2 => *r.pick(&[1usize, 2, 3]),
            3 => *r.pick(&[1023usize, 1024, 1, 2]),
            _ => *r.pick(&[1usize, 2, 5, 1023, 1024]),
        };
        // one-row chunks for large inputs would be thousands of INSERTs: cap
        let want = if n > 64 && want < 16 && style != 3 { 512 + want } else { want };
        let k = want.min(left);
        out.push(k);
        left -= k;
    }
    out
}

fn gen_rows(r: &mut Rng, types: &[Ty], keycols: &[bool], n: usize) -> Vec<Vec<String>> {
    (0..n)
        .map(|_| {
            types
                .iter()
                .zip(keycols)
                .map(|(t, k)| gen_cell(r, *t, *k))
                .collect()
        })
        .collect()
}

fn chunked(rows: &[Vec<String>], sizes: &[usize]) -> Vec<Vec<Vec<String>>> {
    let mut out = vec![];
    let mut i = 0;
    for s in sizes {
        out.push(rows[i..i + s].to_vec());
        i += s;
    }
    out
}

fn gen_size(r: &mut Rng, big_ok: bool) -> usize {
    let x = r.below(100);
    if big_ok && x < 12 {
        *r.pick(&[1023usize, 1024, 1025, 2049])
    } else if x < 22 {
        0
    } else if x < 40 {
        1
    } else {
        r.range(2, 9) as usize
    }
}

fn scan(t: usize, ncols: usize) -> String {
    let cols: Vec<String> = (0..ncols).map(|c| format!("${t}.{c}")).collect();
    format!("(scan ${t} (list {}) true)", cols.join(" "))
}

struct Case {
    tables: Vec<TableData>,
    plans: Vec<(String, String)>, // (label, plan)
    family: String,
    detail: String,
    compare: &'static str, // bag | seq
}

/// tables 0/1 hold the data, tables 2/3 the same rows chunked differently.
fn rechunk_plan(p: &str) -> String {
    p.replace("$0", "$2").replace("$1", "$3")
}

fn gen_join(r: &mut Rng) -> Case {
    // L: a:i32 b:i64 c:i32 s:str k:i16 f:bool     R: x:i32 y:i64 z:i32 w:str u:i16 g:bool
    let types = vec![Ty::I32, Ty::I64, Ty::I32, Ty::Str, Ty::I16, Ty::Bool];
    let keycols = [true, true, true, true, true, false];
    let big_left = r.chance(1, 2);
    let (mut nl, mut nr) = (gen_size(r, big_left), gen_size(r, !big_left));
    if nl > 64 {
        nr = nr.min(3);
    }
    if nr > 64 {
        nl = nl.min(3);
    }
    let lrows = gen_rows(r, &types, &keycols, nl);
    let rrows = gen_rows(r, &types, &keycols, nr);
    let mk = |rows: &Vec<Vec<String>>, r: &mut Rng| TableData {
        types: types.clone(),
        chunks: chunked(rows, &gen_chunking(r, rows.len())),
    };
    let tables = vec![mk(&lrows, r), mk(&rrows, r), mk(&lrows, r), mk(&rrows, r)];

    let jt = *r.pick(&["inner", "inner", "left_outer", "left_outer", "right_outer", "full_outer", "semi", "anti"]);
    // key pairs: (left col, right col)
    // (keys of different integer widths are compared by value since the /repo `fix:` commit
    // "join keys compare by value": every pair of widths, both directions)
    let kind = r.below(14);
    let first: (usize, usize) = match kind {
        0..=4 => (0, 0), // i32 = i32
        5 | 6 => (1, 1), // i64 = i64
        7 => (3, 3),     // str = str
        8 | 9 => (0, 1), // i32 = i64 (mixed widths)
        10 => (1, 0),    // i64 = i32
        11 => (4, 0),    // i16 = i32
        12 => (4, 1),    // i16 = i64
        _ => (1, 4),     // i64 = i16
    };
    let mut pairs = vec![first];
    if r.chance(1, 4) {
        pairs.push((2, 2));
    }
    let lks: Vec<String> = pairs.iter().map(|p| format!("$0.{}", p.0)).collect();
    let rks: Vec<String> = pairs.iter().map(|p| format!("$1.{}", p.1)).collect();
    let mut on = format!("(= {} {})", lks[0], rks[0]);
    for i in 1..pairs.len() {
        on = format!("(and {} (= {} {}))", on, lks[i], rks[i]);
    }
    let filtered = r.chance(1, 5);
    let l = if filtered { format!("(filter (>= $0.2 1) {})", scan(0, 6)) } else { scan(0, 6) };
    let rr = scan(1, 6);
    // conditions that are NULL for some pairs and whose NOT / IN reaches the kernels: a nullable BOOLEAN
    // bare / under NOT, [NOT] IN (list) with NULL probes and members, NOT (p AND q), NOT (p OR q)
    let tvl_conds: [&str; 10] = [
        "(not (and (> $0.1 $1.1) (= $0.3 $1.3)))",
        "(not (in $0.2 (list $1.2 1)))",
        "(in $0.2 (list 0 $1.2))",
        "(not (or $0.5 (< $0.2 $1.2)))",
        "(and $0.5 (<> $0.2 $1.2))",
        "(not (and $0.5 $1.5))",
        "(and (not $1.5) (<= $0.2 $1.2))",
        "(not (or (= $0.3 $1.3) (isnull $1.1)))",
        "(and (not (in $1.2 (list 2 $0.2 $0.0))) (not $0.5))",
        "(not (and (not $0.5) (>= $0.1 $1.1)))",
    ];
    let semi = jt == "semi" || jt == "anti";
    let mut tvl = false;
    let resid = if semi && r.chance(1, 2) {
        if r.chance(1, 2) {
            tvl = true;
            Some((*r.pick(&tvl_conds)).to_string())
        } else {
            Some((*r.pick(&["(> $0.1 $1.1)", "(<> $0.2 $1.2)", "(<= $0.2 $1.2)"])).to_string())
        }
    } else {
        None
    };
    // inner join + a condition: nested loop takes it in ON, hash / merge join under a filter above
    let above = if jt == "inner" && r.chance(1, 3) {
        tvl = true;
        Some((*r.pick(&tvl_conds)).to_string())
    } else {
        None
    };
    // the condition alone (no equality): nested-loop join of every type, over two chunkings
    let cond_only = if above.is_none() && resid.is_none() && r.chance(1, 7) {
        tvl = true;
        Some((*r.pick(&tvl_conds)).to_string())
    } else {
        None
    };
    let mut plans = vec![];
    let nl_on = match (&resid, &above, &cond_only) {
        (Some(c), _, _) => format!("(and {on} {c})"),
        (_, Some(c), _) => format!("(and {on} {c})"),
        (_, _, Some(c)) => c.clone(),
        _ => on.clone(),
    };
    let wrap = |p: String| match &above {
        Some(c) => format!("(filter {c} {p})"),
        None => p,
    };
    // (right / full outer nested-loop joins exist since /repo 7d07810)
    {
        plans.push(("nl".to_string(), format!("(join {jt} {nl_on} {l} {rr})")));
    }
    let cond = resid.clone().unwrap_or("true".into());
    if cond_only.is_none() {
        plans.push((
            "hash".to_string(),
            wrap(format!("(hashjoin {jt} {cond} (list {}) (list {}) {l} {rr})", lks.join(" "), rks.join(" "))),
        ));
    }
    if !semi && cond_only.is_none() {
        plans.push((
            "merge".to_string(),
            wrap(format!(
                "(mergejoin {jt} true (list {}) (list {}) (order (list {}) {l}) (order (list {}) {rr}))",
                lks.join(" "),
                rks.join(" "),
                lks.join(" "),
                rks.join(" ")
            )),
        ));
    }
    let n0 = plans.len();
    for i in 0..n0 {
        let (lab, p) = plans[i].clone();
        plans.push((format!("{lab}@rechunk"), rechunk_plan(&p)));
    }
    Case {
        tables,
        plans,
        family: "join".into(),
        detail: format!(
            "{jt} keys={} {}{}",
            match kind {
                0..=4 => "i32=i32",
                5 | 6 => "i64=i64",
                7 => "str=str",
                8 | 9 => "i32=i64",
                10 => "i64=i32",
                11 => "i16=i32",
                12 => "i16=i64",
                _ => "i64=i16",
            },
            if pairs.len() > 1 { "two-keys " } else { "" },
            if cond_only.is_some() { "cond-only tvl" } else if above.is_some() { "filter-above tvl" } else if resid.is_some() && tvl { "residual tvl" } else if resid.is_some() { "residual" } else { "" }
        ),
        compare: "bag",
    }
}

fn gen_agg(r: &mut Rng) -> Case {
    // X: g:i32 h:str v:i32 w:i64 s:str b:bool
    let types = vec![Ty::I32, Ty::Str, Ty::I32, Ty::I64, Ty::Str, Ty::Bool];
    let keycols = [true, true, false, false, false, false];
    let n = gen_size(r, true);
    let rows = gen_rows(r, &types, &keycols, n);
    let mk = |r: &mut Rng| TableData { types: types.clone(), chunks: chunked(&rows, &gen_chunking(r, rows.len())) };
    let tables = vec![mk(r), TableData { types: vec![Ty::I32], chunks: vec![] }, mk(r), TableData { types: vec![Ty::I32], chunks: vec![] }];
    let keys: Vec<&str> = match r.below(8) {
        0..=2 => vec![],
        3 | 4 => vec!["$0.0"],
        5 => vec!["$0.1"],
        _ => vec!["$0.0", "$0.1"],
    };
    let pool = [
        "(sum $0.2)", "(sum $0.3)", "(count $0.2)", "(count $0.4)", "rowcount", "(min $0.2)", "(max $0.3)",
        "(min $0.4)", "(max $0.4)", "(max $0.5)", "(count-distinct $0.2)", "(count-distinct $0.4)",
        "(sum (+ $0.2 1))",
    ];
    let internal = ["(first $0.2)", "(last $0.2)", "(first $0.4)", "(last $0.3)"];
    let mut aggs: Vec<String> = vec![];
    let k = r.range(1, 4);
    for _ in 0..k {
        let a = if r.chance(1, 8) { *r.pick(&internal) } else { *r.pick(&pool) };
        if !aggs.iter().any(|x| x == a) {
            aggs.push(a.to_string());
        }
    }
    let filtered = r.chance(1, 4);
    let x = if filtered {
        format!("(filter {} {})", r.pick(&["(> $0.2 0)", "(> $0.2 100)", "(isnull $0.2)", "false"]), scan(0, 6))
    } else {
        scan(0, 6)
    };
    let kl = if keys.is_empty() { "list".to_string() } else { format!("(list {})", keys.join(" ")) };
    let al = format!("(list {})", aggs.join(" "));
    let mut plans = vec![("hash".to_string(), format!("(hashagg {kl} {al} {x})"))];
    if keys.is_empty() {
        plans.push(("simple".to_string(), format!("(agg {al} {x})")));
        plans.push(("sort".to_string(), format!("(sortagg list {al} {x})")));
    } else {
        plans.push(("sort".to_string(), format!("(sortagg {kl} {al} (order {kl} {x}))")));
    }
    let n0 = plans.len();
    for i in 0..n0 {
        let (lab, p) = plans[i].clone();
        plans.push((format!("{lab}@rechunk"), rechunk_plan(&p)));
    }
    Case {
        tables,
        plans,
        family: "agg".into(),
        detail: format!("keys={} aggs={}{}", keys.len(), aggs.join(","), if filtered { " filtered" } else { "" }),
        compare: "bag",
    }
}

fn gen_topn(r: &mut Rng) -> Case {
    // X: a:i32 b:i64 s:str v:i32
    let types = vec![Ty::I32, Ty::I64, Ty::Str, Ty::I32];
    let keycols = [true, true, true, false];
    let n = gen_size(r, true);
    let rows = gen_rows(r, &types, &keycols, n);
    let mk = |r: &mut Rng| TableData { types: types.clone(), chunks: chunked(&rows, &gen_chunking(r, rows.len())) };
    let tables = vec![mk(r), TableData { types: vec![Ty::I32], chunks: vec![] }, mk(r), TableData { types: vec![Ty::I32], chunks: vec![] }];
    let ncand = r.range(1, 2) as usize;
    let mut cols: Vec<usize> = vec![];
    while cols.len() < ncand {
        let c = r.below(4) as usize;
        if !cols.contains(&c) {
            cols.push(c);
        }
    }
    let keys: Vec<String> = cols
        .iter()
        .map(|c| if r.chance(1, 3) { format!("(desc $0.{c})") } else { format!("$0.{c}") })
        .collect();
    let projs: Vec<String> = cols.iter().map(|c| format!("$0.{c}")).collect();
    let limit = *r.pick(&[0usize, 1, 2, 3, 5, 1024, 1025, 3000]);
    let offset = *r.pick(&[0usize, 0, 1, 2, 1023, 1024]);
    let x = scan(0, 4);
    let kl = format!("(list {})", keys.join(" "));
    let pl = format!("(list {})", projs.join(" "));
    let mut plans = vec![
        ("topn".to_string(), format!("(proj {pl} (topn {limit} {offset} {kl} {x}))")),
        ("limit-order".to_string(), format!("(proj {pl} (limit {limit} {offset} (order {kl} {x})))")),
    ];
    let n0 = plans.len();
    for i in 0..n0 {
        let (lab, p) = plans[i].clone();
        plans.push((format!("{lab}@rechunk"), rechunk_plan(&p)));
    }
    Case {
        tables,
        plans,
        family: "topn".into(),
        detail: format!("limit={limit} offset={offset} keys={}", keys.join(",")),
        compare: "seq",
    }
}

fn json_str(s: &str) -> String {
    serde_json::to_string(s).unwrap()
}

fn gen(n: usize, out: &str, meta: &str) {
    let mut r = Rng::from_env();
    let mut req = String::new();
    let mut m = String::new();
    for id in 0..n {
        let c = match r.below(10) {
            0..=4 => gen_join(&mut r),
            5..=7 => gen_agg(&mut r),
            _ => gen_topn(&mut r),
        };
        let tables: Vec<String> = c.tables.iter().map(table_sexp).collect();
        let plans: Vec<String> = c.plans.iter().map(|p| p.1.clone()).collect();
        req += &format!("(case {id} (tables {}) (plans {}))\n", tables.join(" "), plans.join(" "));
        let labels: Vec<String> = c.plans.iter().map(|p| json_str(&p.0)).collect();
        let sizes: Vec<String> = c
            .tables
            .iter()
            .map(|t| format!("[{}]", t.chunks.iter().map(|c| c.len().to_string()).collect::<Vec<_>>().join(",")))
            .collect();
        m += &format!(
            "{{\"id\":{id},\"family\":{},\"detail\":{},\"compare\":{},\"labels\":[{}],\"chunks\":[{}]}}\n",
            json_str(&c.family),
            json_str(&c.detail),
            json_str(c.compare),
            labels.join(","),
            sizes.join(",")
        );
    }
    std::fs::write(out, req).unwrap();
    std::fs::write(meta, m).unwrap();
}

// ---------------------------------------------------------------------------------------------
// runner
// ---------------------------------------------------------------------------------------------

fn fix_schema(p: &RecExpr) -> RecExpr {
    let v: Vec<Expr> = p
        .as_ref()
        .iter()
        .cloned()
        .map(|e| match e {
            Expr::Column(mut c) => {
                c.schema_id = 1;
                Expr::Column(c)
            }
            Expr::Table(mut t) => {
                t.schema_id = 1;
                Expr::Table(t)
            }
            e => e,
        })
        .collect();
    RecExpr::from(v)
}

fn parse_tables(s: &Sexp) -> Vec<TableData> {
    let mut out = vec![];
    for t in &s.as_list().unwrap()[1..] {
        let t = t.as_list().unwrap();
        let types: Vec<Ty> = t[1].as_list().unwrap()[1..].iter().map(|a| Ty::of_tag(a.as_atom().unwrap())).collect();
        let mut chunks = vec![];
        for c in &t[2..] {
            let rows: Vec<Vec<String>> = c.as_list().unwrap()[1..]
                .iter()
                .map(|r| r.as_list().unwrap()[1..].iter().map(|v| v.as_atom().unwrap().to_string()).collect())
                .collect();
            chunks.push(rows);
        }
        out.push(TableData { types, chunks });
    }
    out
}

fn load_tables(rt: &tokio::runtime::Runtime, db: &risinglight::Database, tables: &[TableData]) -> Result<(), String> {
    for (i, t) in tables.iter().enumerate() {
        let cols: Vec<String> = t.types.iter().enumerate().map(|(j, ty)| format!("c{j} {}", ty.sql())).collect();
        let sql = format!("create table t{i}({})", cols.join(", "));
        if let Outcome::Ok(_) = run_sql(rt, db, &sql) {
        } else {
            return Err(format!("create failed: {sql}"));
        }
        for c in &t.chunks {
            let rows: Vec<String> = c
                .iter()
                .map(|r| format!("({})", r.iter().map(|v| canon_to_sql(v)).collect::<Vec<_>>().join(",")))
                .collect();
            let sql = format!("insert into t{i} values {}", rows.join(","));
            match run_sql(rt, db, &sql) {
                Outcome::Ok(_) => {}
                o => return Err(format!("insert failed: {}", o.class())),
            }
        }
    }
    Ok(())
}

fn run_plan(rt: &tokio::runtime::Runtime, db: &risinglight::Database, text: &str) -> String {
    let plan: RecExpr = match text.parse() {
        Ok(p) => p,
        Err(e) => return format!("err parse {e:?} ; "),
    };
    let plan = fix_schema(&plan);
    match catch(|| rt.block_on(db.verif_run_plan(&plan))) {
        Ok(Ok(chunks)) => {
            let rows = canon_rows_of(&chunks);
            let mut s = String::from("ok ; ");
            for r in rows {
                s.push('(');
                s.push_str(&r.join(" "));
                s.push(')');
            }
            s
        }
        Ok(Err(_)) => "err ; ".into(),
        Err(p) => format!("panic {} ; ", p.replace(['\t', '\n', ';'], " ")),
    }
}

fn run(path: &str) {
    let rt = runtime();
    for line in read_lines(path) {
        let s = Sexp::parse(&line).expect("request");
        let l = s.as_list().unwrap();
        let id = l[1].as_atom().unwrap();
        let tables = parse_tables(&l[2]);
        let db = risinglight::Database::new_in_memory();
        let mut out = id.to_string();
        match load_tables(&rt, &db, &tables) {
            Err(e) => {
                for _ in &l[3].as_list().unwrap()[1..] {
                    out += &format!("\terr load {e} ; ");
                }
            }
            Ok(()) => {
                for p in &l[3].as_list().unwrap()[1..] {
                    out.push('\t');
                    out += &run_plan(&rt, &db, &p.to_string());
                }
            }
        }
        println!("{out}");
    }
}

fn main() {
    let args: Vec<String> = std::env::args().collect();
    match args.get(1).map(|s| s.as_str()) {
        Some("gen") => gen(args[2].parse().unwrap(), &args[3], &args[4]),
        Some("run") => run(&args[2]),
        _ => panic!("usage: c11 gen <n> <out> <meta> | c11 run <requests>"),
    }
}
