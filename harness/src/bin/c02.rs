//! C02 harness: SQL answers of the real system vs the L1 spec / the L2 model of the plan that was
//! actually chosen / SQLite.
//!
//!   c02 gen <n> <cases-out>      generate (schema, data, query) triples (seeded by VERIF_SEED);
//!                                one JSON object per line: id, shape, tables (canonical text, chunked),
//!                                sql (RisingLight), sqlite (same query in SQLite's dialect), logical
//!                                (the query as a plan s-expression over the L1 operators, written by
//!                                THIS generator, not by RisingLight's binder), ordered (compare as a
//!                                sequence or as a bag)
//!   c02 run <cases>              loads the tables into a fresh in-memory database, binds + optimises
//!                                the query exactly like `Database::run`, executes the optimised plan
//!                                and prints `<id> TAB <status> ; <rows> TAB <optimised plan>`; the
//!                                plain `Database::run(sql)` answer is cross-checked against it.
use rlverif::*;
use serde_json::{json, Value};

// ---------------------------------------------------------------------------------------------
// data
// ---------------------------------------------------------------------------------------------

#[derive(Clone, Copy, PartialEq, Eq, Debug)]
enum Ty {
    I32,
    I64,
    Str,
    Bool,
}

impl Ty {
    fn tag(self) -> &'static str {
        match self {
            Ty::I32 => "i32",
            Ty::I64 => "i64",
            Ty::Str => "str",
            Ty::Bool => "bool",
        }
    }
    fn sql(self) -> &'static str {
        match self {
            Ty::I32 => "int",
            Ty::I64 => "bigint",
            Ty::Str => "varchar",
            Ty::Bool => "boolean",
        }
    }
}

fn canon_to_sql(c: &str) -> String {
    if c == "null" {
        return "NULL".into();
    }
    let (tag, rest) = c.split_once(':').unwrap();
    match tag {
        "i32" | "i64" | "i16" => rest.to_string(),
        "b" => rest.to_string(),
        "s" => format!("'{}'", String::from_utf8(unhex(rest).unwrap()).unwrap()),
        _ => panic!("bad canon {c}"),
    }
}

/// `far`: values from a domain disjoint from (and larger than) the normal one — rows of a "far" chunk
/// have no join / correlation partner among normal rows.
fn gen_cell(r: &mut Rng, ty: Ty, key: bool, far: bool) -> String {
    if r.chance(if key { 20 } else { 25 }, 100) {
        return "null".into();
    }
    if far {
        return match ty {
            Ty::I32 => format!("i32:{}", r.range(10, 13)),
            Ty::I64 => format!("i64:{}", r.range(10, 13)),
            Ty::Str => format!("s:{}", hex(r.pick(&["zy", "zz"]).as_bytes())),
            Ty::Bool => format!("b:{}", r.chance(1, 2)),
        };
    }
    match ty {
        Ty::I32 => format!("i32:{}", if key { r.range(0, 3) } else { r.range(-3, 5) }),
        Ty::I64 => format!("i64:{}", if key { r.range(0, 3) } else { r.range(-3, 5) }),
        Ty::Str => format!("s:{}", hex(r.pick(&["", "a", "b", "ab"]).as_bytes())),
        Ty::Bool => format!("b:{}", r.chance(1, 2)),
    }
}

struct Tbl {
    name: &'static str,
    cols: Vec<(&'static str, Ty, bool)>,
    chunks: Vec<Vec<Vec<String>>>,
    /// index of the PRIMARY KEY column (unique, non-null values), if the table is keyed
    pk: Option<usize>,
}

/// keyed table: column 0 is the PRIMARY KEY (distinct non-null values 0..9 in random order), filled by
/// 2..4 INSERTs — on the disk engine the scan merges the row-sets in key order and the planner relies on it
fn gen_keyed_table(r: &mut Rng, name: &'static str, cols: Vec<(&'static str, Ty, bool)>) -> Tbl {
    let n = r.range(3, 8) as usize;
    let mut keys: Vec<i64> = (0..10).collect();
    for k in (1..keys.len()).rev() {
        let j = r.below(k as u64 + 1) as usize;
        keys.swap(k, j);
    }
    let rows: Vec<Vec<String>> = (0..n)
        .map(|i| {
            cols.iter()
                .enumerate()
                .map(|(j, c)| if j == 0 { format!("i32:{}", keys[i]) } else { gen_cell(r, c.1, c.2, false) })
                .collect()
        })
        .collect();
    let nch = r.range(2, 4) as usize;
    let mut chunks: Vec<Vec<Vec<String>>> = vec![vec![]; nch];
    for (i, row) in rows.into_iter().enumerate() {
        chunks[i % nch].push(row);
    }
    chunks.retain(|c| !c.is_empty());
    Tbl { name, cols, chunks, pk: Some(0) }
}

/// Table layouts (every chunk = one INSERT = one chunk of the in-memory scan):
///   plain      0..9 rows cut into chunks of 1, 2, 3 or 8 rows
///   clustered  2..4 chunks of 1..4 rows; only ONE chunk (first / middle / last) holds rows of the
///              normal value domain, the others hold "far" rows — partners of the other table sit in a
///              single, chosen chunk
///   large      1025..2100 rows (chunks of 1024 + rest, or 1023 + 2 + rest): crosses the 1024-row
///              boundary of every executor; few distinct keys
fn gen_table(r: &mut Rng, name: &'static str, cols: Vec<(&'static str, Ty, bool)>, layout: u64) -> Tbl {
    let row = |r: &mut Rng, far: bool| -> Vec<String> { cols.iter().map(|c| gen_cell(r, c.1, c.2, far)).collect() };
    let mut chunks = vec![];
    match layout {
        1 => {
            let nch = r.range(2, 4) as usize;
            let near = match r.below(3) {
                0 => 0,
                1 => nch / 2,
                _ => nch - 1,
            };
            for j in 0..nch {
                let k = r.range(1, 4) as usize;
                chunks.push((0..k).map(|_| row(r, j != near)).collect());
            }
        }
        2 => {
            let n = *r.pick(&[1025usize, 1030, 2049, 2100]);
            let rows: Vec<Vec<String>> = (0..n).map(|_| row(r, false)).collect();
            let sizes: Vec<usize> = if r.chance(1, 2) { vec![1024, 1024, 1024] } else { vec![1023, 2, 1024, 1024] };
            let mut i = 0;
            for k in sizes {
                if i >= n {
                    break;
                }
                let k = k.min(n - i);
                chunks.push(rows[i..i + k].to_vec());
                i += k;
            }
        }
        3 => {
            // duplicates: 1..3 distinct rows, each 1..3 times, shuffled, in chunks of 1..3 rows
            let nd = r.range(1, 3) as usize;
            let mut rows: Vec<Vec<String>> = vec![];
            for _ in 0..nd {
                let base = row(r, false);
                for _ in 0..r.range(1, 3) {
                    rows.push(base.clone());
                }
            }
            for k in (1..rows.len()).rev() {
                let j = r.below(k as u64 + 1) as usize;
                rows.swap(k, j);
            }
            let n = rows.len();
            let mut i = 0;
            while i < n {
                let k = (r.range(1, 3) as usize).min(n - i);
                chunks.push(rows[i..i + k].to_vec());
                i += k;
            }
        }
        _ => {
            let n = match r.below(10) {
                0 => 0,
                1 => 1,
                _ => r.range(2, 9) as usize,
            };
            let rows: Vec<Vec<String>> = (0..n).map(|_| row(r, false)).collect();
            let mut i = 0;
            while i < n {
                let k = (*r.pick(&[1usize, 2, 3, 8])).min(n - i);
                chunks.push(rows[i..i + k].to_vec());
                i += k;
            }
        }
    }
    Tbl { name, cols, chunks, pk: None }
}

// ---------------------------------------------------------------------------------------------
// query generator: every query is built once and rendered three times
// ---------------------------------------------------------------------------------------------

/// a column of the FROM clause: SQL name, plan reference, type
#[derive(Clone)]
struct Col {
    sql: String,
    plan: String,
    ty: Ty,
}

/// expression rendered for RisingLight SQL / SQLite / the plan language
#[derive(Clone)]
struct E {
    sql: String,
    lite: String,
    plan: String,
}


fn gen_pred(r: &mut Rng, cols: &[Col], depth: u32) -> E {
    if depth > 0 && r.chance(1, 3) {
        let a = gen_pred(r, cols, depth - 1);
        let b = gen_pred(r, cols, depth - 1);
        let (op, pop) = if r.chance(1, 2) { ("AND", "and") } else { ("OR", "or") };
        return E {
            sql: format!("({} {op} {})", a.sql, b.sql),
            lite: format!("({} {op} {})", a.lite, b.lite),
            plan: format!("({pop} {} {})", a.plan, b.plan),
        };
    }
    let ints: Vec<&Col> = cols.iter().filter(|c| matches!(c.ty, Ty::I32 | Ty::I64)).collect();
    let strs: Vec<&Col> = cols.iter().filter(|c| c.ty == Ty::Str).collect();
    match r.below(10) {
        0 if !strs.is_empty() => {
            let c = *r.pick(&strs);
            let v = *r.pick(&["a", "b", ""]);
            let (op, pop) = *r.pick(&[("=", "="), ("<>", "<>"), (">", ">"), ("<=", "<=")]);
            E { sql: format!("{} {op} '{v}'", c.sql), lite: format!("{} {op} '{v}'", c.sql), plan: format!("({pop} {} '{v}')", c.plan) }
        }
        1 => {
            let c = r.pick(cols);
            let not = r.chance(1, 2);
            E {
                sql: format!("{} IS {}NULL", c.sql, if not { "NOT " } else { "" }),
                lite: format!("{} IS {}NULL", c.sql, if not { "NOT " } else { "" }),
                plan: if not { format!("(not (isnull {}))", c.plan) } else { format!("(isnull {})", c.plan) },
            }
        }
        2 | 3 if ints.len() >= 2 => {
            let a = *r.pick(&ints);
            let mut b = *r.pick(&ints);
            // `x op x` is folded by the expression rules (C01's subject): keep the operands apart
            while b.plan == a.plan {
                b = *r.pick(&ints);
            }
            let (op, pop) = *r.pick(&[("=", "="), ("<>", "<>"), ("<", "<"), (">=", ">=")]);
            E { sql: format!("{} {op} {}", a.sql, b.sql), lite: format!("{} {op} {}", a.sql, b.sql), plan: format!("({pop} {} {})", a.plan, b.plan) }
        }
        _ => {
            let c = *r.pick(&ints);
            let v = r.range(-1, 4);
            let (op, pop) = *r.pick(&[("=", "="), ("<>", "<>"), ("<", "<"), (">", ">"), ("<=", "<="), (">=", ">=")]);
            E { sql: format!("{} {op} {v}", c.sql), lite: format!("{} {op} {v}", c.sql), plan: format!("({pop} {} {v})", c.plan) }
        }
    }
}

struct Query {
    shape: String,
    sql: String,
    lite: String,
    logical: String,
    ordered: bool,
    /// LIMIT/OFFSET WITHOUT ORDER BY: `sql` carries it, `lite` and `logical` do not (the oracle
    /// answers the unlimited query; the check compares count and membership only)
    limit: Option<(i64, i64)>,
    /// the query has a correlated scalar aggregate subquery: `logical` carries the placeholder `@MODE@`
    /// (sql | countbug | collapse | both) of its `applyagg` node
    scalar_sub: bool,
    /// ORDER BY on a subset of the output columns: the answer is compared as a bag AND as a sequence
    /// on these output positions
    order_keys: Option<Vec<usize>>,
}

/// ORDER BY on a column of the PADDED side of an outer join (or on a GROUP BY key over such a join): the
/// NULL keys of the padded rows must come first (asc) / last (desc) whatever the join executor emits last.
fn gen_orderpad_query(r: &mut Rng, t0: &Tbl, t1: &Tbl) -> Query {
    let jt = *r.pick(&[("LEFT JOIN", "left_outer"), ("LEFT JOIN", "left_outer"), ("RIGHT JOIN", "right_outer"), ("FULL JOIN", "full_outer"), ("FULL JOIN", "full_outer"), ("JOIN", "inner")]);
    let from_sql = format!("{} {} {} ON a = x", t0.name, jt.0, t1.name);
    let from_plan = format!("(join {} (= $0.0 $1.0) {} {})", jt.1, scan_plan(0, t0.cols.len()), scan_plan(1, t1.cols.len()));
    let (kc_sql, kc_plan) = if r.chance(2, 3) { ("x", "$1.0") } else { ("a", "$0.0") };
    let desc = r.chance(1, 2);
    let mut shape = format!("join:{}:i32=i32 order-by-padded-key/{}{}", jt.1, kc_sql, if desc { "/desc" } else { "" });
    let (sel, plan) = if r.chance(1, 2) {
        let others = [("c", "$0.2"), ("z", "$1.2"), ("s", "$0.3"), ("y", "$1.1")];
        let oc = r.pick(&others);
        shape += " proj";
        (format!("SELECT {kc_sql} AS o0, {} AS o1 FROM {from_sql}", oc.0), format!("(proj (list {kc_plan} {}) {from_plan})", oc.1))
    } else {
        shape += " group-by";
        let (ag_sql, ag_plan) = *r.pick(&[("count(*)", "rowcount"), ("count(c)", "(count $0.2)"), ("max(z)", "(max $1.2)")]);
        (
            format!("SELECT {kc_sql} AS o0, {ag_sql} AS o1 FROM {from_sql} GROUP BY {kc_sql}"),
            format!("(proj (list {kc_plan} {ag_plan}) (hashagg (list {kc_plan}) (list {ag_plan}) {from_plan}))"),
        )
    };
    let sql = format!("{sel} ORDER BY o0{}", if desc { " DESC" } else { "" });
    let logical = format!("(order (list {}) {plan})", if desc { "(desc #0)" } else { "#0" });
    Query { shape, sql: sql.clone(), lite: sql, logical, ordered: false, limit: None, scalar_sub: false, order_keys: Some(vec![0]) }
}

/// Combinations of clauses on ONE select that `gen_query` never puts together: DISTINCT with GROUP BY
/// (select list a strict subset / a permutation / a superset of the keys, items repeated), DISTINCT over
/// aggregates, HAVING on an unselected key or aggregate, GROUP BY expressions, DISTINCT + ORDER BY + LIMIT.
/// Keys have few distinct values, NULLs and duplicates, so groups that agree on a PART of the key are common.
/// Logical plan: DISTINCT after GROUP BY is `dedup ∘ project ∘ (having) ∘ group`.
fn gen_clausemix_query(r: &mut Rng, t0: &Tbl, t1: &Tbl) -> Query {
    let cols0: Vec<Col> = t0.cols.iter().enumerate().map(|(i, c)| Col { sql: c.0.into(), plan: format!("$0.{i}"), ty: c.1 }).collect();
    let cols1: Vec<Col> = t1.cols.iter().enumerate().map(|(i, c)| Col { sql: c.0.into(), plan: format!("$1.{i}"), ty: c.1 }).collect();
    let mut shape = String::from("clause-mix");
    let (from_sql, from_plan, cols): (String, String, Vec<Col>) = match r.below(5) {
        0 => {
            shape += " join:inner";
            let mut c = cols0.clone();
            c.extend(cols1.iter().cloned());
            (format!("{} JOIN {} ON a = x", t0.name, t1.name), format!("(join inner (= $0.0 $1.0) {} {})", scan_plan(0, cols0.len()), scan_plan(1, cols1.len())), c)
        }
        1 => {
            shape += " join:left_outer";
            let mut c = cols0.clone();
            c.extend(cols1.iter().cloned());
            (format!("{} LEFT JOIN {} ON a = x", t0.name, t1.name), format!("(join left_outer (= $0.0 $1.0) {} {})", scan_plan(0, cols0.len()), scan_plan(1, cols1.len())), c)
        }
        _ => {
            shape += " single";
            (t0.name.to_string(), scan_plan(0, cols0.len()), cols0.clone())
        }
    };
    let ints: Vec<Col> = cols.iter().filter(|c| matches!(c.ty, Ty::I32 | Ty::I64)).cloned().collect();
    let keyable: Vec<Col> = cols.iter().filter(|c| c.ty != Ty::Bool).cloned().collect();
    let ob_tail = |r: &mut Rng, out_n: usize, sql: &mut String, plan: &mut String, shape: &mut String, p_order: (u64, u64)| -> (bool, Option<(i64, i64)>) {
        let mut ordered = false;
        let mut limit = None;
        if r.chance(p_order.0, p_order.1) {
            ordered = true;
            let descs: Vec<bool> = (0..out_n).map(|_| r.chance(1, 3)).collect();
            let ob: Vec<String> = (0..out_n).map(|i| format!("o{i}{}", if descs[i] { " DESC" } else { "" })).collect();
            let keys: Vec<String> = (0..out_n).map(|i| if descs[i] { format!("(desc #{i})") } else { format!("#{i}") }).collect();
            *sql += &format!(" ORDER BY {}", ob.join(", "));
            *plan = format!("(order {} {plan})", list(&keys));
            *shape += " order-by";
            if r.chance(2, 3) {
                let n = r.range(0, 4);
                let off = r.range(0, 2);
                *sql += &format!(" LIMIT {n} OFFSET {off}");
                *plan = format!("(limit {n} {off} {plan})");
                *shape += " limit";
            }
        } else if r.chance(1, 6) {
            let n = *r.pick(&[0i64, 1, 2, 3, 5, 20]);
            let off = *r.pick(&[0i64, 0, 1, 2]);
            limit = Some((n, off));
            *shape += " limit-unordered";
        }
        (ordered, limit)
    };

    if r.chance(1, 6) {
        // DISTINCT + ORDER BY + LIMIT without GROUP BY
        let k = r.range(1, 3) as usize;
        let picked: Vec<Col> = (0..k).map(|_| r.pick(&cols).clone()).collect();
        let names: Vec<String> = picked.iter().enumerate().map(|(i, c)| format!("{} AS o{i}", c.sql)).collect();
        let refs: Vec<String> = picked.iter().map(|c| c.plan.clone()).collect();
        let mut uniq: Vec<String> = vec![];
        for x in &refs {
            if !uniq.contains(x) {
                uniq.push(x.clone());
            }
        }
        if uniq.len() < refs.len() {
            shape += " items-repeated";
        }
        let mut plan = format!("(proj {} (hashagg {} list {from_plan}))", list(&refs), list(&uniq));
        let mut sql = format!("SELECT DISTINCT {} FROM {from_sql}", names.join(", "));
        shape += " distinct";
        let (ordered, limit) = ob_tail(r, k, &mut sql, &mut plan, &mut shape, (5, 6));
        let lite = sql.clone();
        if let Some((n, off)) = limit {
            sql += &format!(" LIMIT {n} OFFSET {off}");
        }
        return Query { shape, sql, lite, logical: plan, ordered, limit, scalar_sub: false, order_keys: None };
    }

    // GROUP BY keys: 1..3 distinct items, columns or expressions
    let nk = *r.pick(&[1usize, 2, 2, 2, 3]);
    let mut keys: Vec<Col> = vec![];
    while keys.len() < nk {
        let c = if r.chance(1, 4) {
            let x = r.pick(&ints).clone();
            if r.chance(1, 2) {
                let v = r.range(1, 2);
                Col { sql: format!("{} + {v}", x.sql), plan: format!("(+ {} {v})", x.plan), ty: x.ty }
            } else {
                let y = r.pick(&ints).clone();
                if y.plan == x.plan {
                    continue;
                }
                Col { sql: format!("{} + {}", x.sql, y.sql), plan: format!("(+ {} {})", x.plan, y.plan), ty: Ty::I64 }
            }
        } else {
            r.pick(&keyable).clone()
        };
        if !keys.iter().any(|k| k.plan == c.plan) {
            keys.push(c);
        }
    }
    if keys.iter().any(|k| k.plan.starts_with('(')) {
        shape += " key-expr";
    }
    let gen_agg = |r: &mut Rng| -> (String, String) {
        let c = r.pick(&ints).clone();
        match r.below(6) {
            0 | 1 => ("count(*)".to_string(), "rowcount".to_string()),
            2 => (format!("count({})", c.sql), format!("(count {})", c.plan)),
            3 => (format!("sum({})", c.sql), format!("(sum {})", c.plan)),
            4 => (format!("max({})", c.sql), format!("(max {})", c.plan)),
            _ => (format!("min({})", c.sql), format!("(min {})", c.plan)),
        }
    };
    // select list: (sql, plan) items
    let mode = r.below(10);
    let mut items: Vec<(String, String)> = vec![];
    let mut aggs: Vec<(String, String)> = vec![];
    let mut perm: Vec<usize> = (0..nk).collect();
    for i in (1..perm.len()).rev() {
        let j = r.below(i as u64 + 1) as usize;
        perm.swap(i, j);
    }
    let mut selected_keys: Vec<usize> = vec![];
    let mname;
    match mode {
        0..=3 if nk >= 2 => {
            // strict subset of the keys
            let take = r.range(1, nk as i64 - 1) as usize;
            selected_keys = perm[..take].to_vec();
            mname = "subset-of-keys";
        }
        4 => {
            selected_keys = perm.clone();
            mname = "permutation-of-keys";
        }
        5 | 6 => {
            selected_keys = perm.clone();
            let na = r.range(1, 2);
            for _ in 0..na {
                let a = gen_agg(r);
                if !aggs.iter().any(|x| x.1 == a.1) {
                    aggs.push(a);
                }
            }
            mname = "superset-of-keys";
        }
        7 | 8 => {
            // aggregates only (no key selected): DISTINCT over aggregates
            let na = r.range(1, 2);
            for _ in 0..na {
                let a = gen_agg(r);
                if !aggs.iter().any(|x| x.1 == a.1) {
                    aggs.push(a);
                }
            }
            mname = "aggregates-only";
        }
        _ => {
            // a part of the keys plus maybe an aggregate
            let take = r.range(1, nk as i64) as usize;
            selected_keys = perm[..take].to_vec();
            if r.chance(1, 2) {
                aggs.push(gen_agg(r));
            }
            mname = "part-of-keys";
        }
    }
    shape += &format!(" group-by/{nk} {mname}");
    for &i in &selected_keys {
        items.push((keys[i].sql.clone(), keys[i].plan.clone()));
    }
    for a in &aggs {
        items.push(a.clone());
    }
    // select items repeated
    if r.chance(1, 5) {
        let it = r.pick(&items).clone();
        let pos = r.below(items.len() as u64 + 1) as usize;
        items.insert(pos, it);
        shape += " items-repeated";
    }
    let distinct = match mname {
        "subset-of-keys" | "aggregates-only" => r.chance(4, 5),
        _ => r.chance(1, 2),
    };
    // HAVING: on a key that is not selected, else on an aggregate that is not selected
    let mut having: Option<(String, String)> = None; // (sql, plan)
    let mut inner_aggs: Vec<String> = aggs.iter().map(|a| a.1.clone()).collect();
    if r.chance(2, 5) {
        let unsel: Vec<usize> = (0..nk).filter(|i| !selected_keys.contains(i)).collect();
        if !unsel.is_empty() && r.chance(3, 4) {
            let k = &keys[*r.pick(&unsel)];
            having = Some(match k.ty {
                Ty::I32 | Ty::I64 if r.chance(3, 4) => {
                    let v = r.range(0, 3);
                    let op = *r.pick(&[">=", "<", "<>", "="]);
                    (format!("{} {op} {v}", k.sql), format!("({op} {} {v})", k.plan))
                }
                _ => {
                    if r.chance(1, 2) {
                        (format!("{} IS NOT NULL", k.sql), format!("(not (isnull {}))", k.plan))
                    } else {
                        (format!("{} IS NULL", k.sql), format!("(isnull {})", k.plan))
                    }
                }
            });
            shape += " having-unselected-key";
        } else {
            let mut a = gen_agg(r);
            if a.0.starts_with("max") || a.0.starts_with("min") {
                a = ("count(*)".to_string(), "rowcount".to_string());
            }
            let v = r.range(0, 2);
            if !inner_aggs.contains(&a.1) {
                inner_aggs.push(a.1.clone());
                shape += " having-unselected-agg";
            } else {
                shape += " having";
            }
            having = Some((format!("{} > {v}", a.0), format!("(> {} {v})", a.1)));
        }
    }
    let key_refs: Vec<String> = keys.iter().map(|c| c.plan.clone()).collect();
    let mut plan = format!("(hashagg {} {} {from_plan})", list(&key_refs), list(&inner_aggs));
    let mut tail = format!(" GROUP BY {}", keys.iter().map(|c| c.sql.clone()).collect::<Vec<_>>().join(", "));
    if let Some((hs, hp)) = &having {
        tail += &format!(" HAVING {hs}");
        plan = format!("(filter {hp} {plan})");
    }
    let refs: Vec<String> = items.iter().map(|x| x.1.clone()).collect();
    if distinct {
        let mut uniq: Vec<String> = vec![];
        for x in &refs {
            if !uniq.contains(x) {
                uniq.push(x.clone());
            }
        }
        plan = format!("(proj {} (hashagg {} list (proj {} {plan})))", list(&refs), list(&uniq), list(&uniq));
        shape += " distinct";
    } else {
        plan = format!("(proj {} {plan})", list(&refs));
    }
    let names: Vec<String> = items.iter().enumerate().map(|(i, x)| format!("{} AS o{i}", x.0)).collect();
    let mut sql = format!("SELECT {}{} FROM {from_sql}{tail}", if distinct { "DISTINCT " } else { "" }, names.join(", "));
    let out_n = items.len();
    let (ordered, limit) = ob_tail(r, out_n, &mut sql, &mut plan, &mut shape, (2, 5));
    let lite = sql.clone();
    if let Some((n, off)) = limit {
        sql += &format!(" LIMIT {n} OFFSET {off}");
    }
    Query { shape, sql, lite, logical: plan, ordered, limit, scalar_sub: false, order_keys: None }
}

// ---------------------------------------------------------------------------------------------
// three-valued logic: conditions that are NULL for some rows / pairs, in every place a condition is read
// ---------------------------------------------------------------------------------------------

fn e_not(e: &E) -> E {
    E { sql: format!("NOT ({})", e.sql), lite: format!("NOT ({})", e.lite), plan: format!("(not {})", e.plan) }
}

fn e_bin(op: &str, pop: &str, a: &E, b: &E) -> E {
    E { sql: format!("({} {op} {})", a.sql, b.sql), lite: format!("({} {op} {})", a.lite, b.lite), plan: format!("({pop} {} {})", a.plan, b.plan) }
}

fn e_col(c: &Col) -> E {
    E { sql: c.sql.clone(), lite: c.sql.clone(), plan: c.plan.clone() }
}

/// a nullable operand: a BOOLEAN column used bare, a comparison with a constant / another column, `IS NULL`
fn tvl_simple(r: &mut Rng, cols: &[Col]) -> E {
    let ints: Vec<&Col> = cols.iter().filter(|c| matches!(c.ty, Ty::I32 | Ty::I64)).collect();
    let strs: Vec<&Col> = cols.iter().filter(|c| c.ty == Ty::Str).collect();
    let bools: Vec<&Col> = cols.iter().filter(|c| c.ty == Ty::Bool).collect();
    match r.below(7) {
        0 | 1 if !bools.is_empty() => e_col(*r.pick(&bools)),
        2 if !strs.is_empty() => {
            let c = *r.pick(&strs);
            let v = *r.pick(&["a", "b", ""]);
            let op = *r.pick(&["=", "<>", ">"]);
            E { sql: format!("{} {op} '{v}'", c.sql), lite: format!("{} {op} '{v}'", c.sql), plan: format!("({op} {} '{v}')", c.plan) }
        }
        3 if ints.len() >= 2 => {
            let a = *r.pick(&ints);
            let mut b = *r.pick(&ints);
            while b.plan == a.plan {
                b = *r.pick(&ints);
            }
            let op = *r.pick(&["=", "<>", "<", ">="]);
            E { sql: format!("{} {op} {}", a.sql, b.sql), lite: format!("{} {op} {}", a.sql, b.sql), plan: format!("({op} {} {})", a.plan, b.plan) }
        }
        _ => {
            let c = *r.pick(&ints);
            let v = r.range(-1, 3);
            let op = *r.pick(&["=", "<>", "<", ">", "<=", ">="]);
            E { sql: format!("{} {op} {v}", c.sql), lite: format!("{} {op} {v}", c.sql), plan: format!("({op} {} {v})", c.plan) }
        }
    }
}

/// `probe [NOT] IN (members)`: INT probe (may be NULL), INT constants and — for NULL members — INT columns of
/// `member_cols` (the dialect wants one type for probe and members and has no NULL literal in a list)
fn tvl_in(r: &mut Rng, probe_cols: &[Col], member_cols: &[Col], negated: bool, force_col: bool) -> E {
    let probes: Vec<&Col> = probe_cols.iter().filter(|c| c.ty == Ty::I32).collect();
    let members: Vec<&Col> = member_cols.iter().filter(|c| c.ty == Ty::I32).collect();
    let p = *r.pick(&probes);
    let mut sqls: Vec<String> = vec![];
    let mut plans: Vec<String> = vec![];
    let others: Vec<&&Col> = members.iter().filter(|c| c.plan != p.plan).collect();
    if !others.is_empty() && (force_col || r.chance(1, 2)) {
        let m = **r.pick(&others);
        sqls.push(m.sql.clone());
        plans.push(m.plan.clone());
    }
    let nconst = if sqls.is_empty() { r.range(1, 3) } else { r.range(0, 2) };
    for _ in 0..nconst {
        let v = r.range(0, 3).to_string();
        if !plans.contains(&v) {
            let at = r.below(sqls.len() as u64 + 1) as usize;
            sqls.insert(at, v.clone());
            plans.insert(at, v);
        }
    }
    let e = E {
        sql: format!("{} {}IN ({})", p.sql, if negated { "NOT " } else { "" }, sqls.join(", ")),
        lite: format!("{} {}IN ({})", p.sql, if negated { "NOT " } else { "" }, sqls.join(", ")),
        plan: format!("(in {} (list {}))", p.plan, plans.join(" ")),
    };
    if negated { E { plan: format!("(not {})", e.plan), ..e } } else { e }
}

/// two different operands
fn tvl_pair(r: &mut Rng, cols: &[Col]) -> (E, E) {
    let p = tvl_simple(r, cols);
    let mut q = tvl_simple(r, cols);
    for _ in 0..8 {
        if q.plan != p.plan {
            break;
        }
        q = tvl_simple(r, cols);
    }
    (p, q)
}

/// a condition over ONE set of columns whose NOT / IN reaches the kernels (the optimizer flips a NOT over a
/// bare comparison away): returns the expression and a tag for the shape
fn tvl_atom(r: &mut Rng, cols: &[Col]) -> (E, &'static str) {
    let bools: Vec<&Col> = cols.iter().filter(|c| c.ty == Ty::Bool).collect();
    match r.below(9) {
        0 if !bools.is_empty() => (e_col(*r.pick(&bools)), "bool"),
        1 | 2 if !bools.is_empty() => (e_not(&e_col(*r.pick(&bools))), "not-bool"),
        3 | 4 => (tvl_in(r, cols, cols, true, false), "not-in-list"),
        5 => (tvl_in(r, cols, cols, false, true), "in-list"),
        6 | 7 => {
            let (p, q) = tvl_pair(r, cols);
            (e_not(&e_bin("AND", "and", &p, &q)), "not-and")
        }
        _ => {
            let (p, q) = tvl_pair(r, cols);
            (e_not(&e_bin("OR", "or", &p, &q)), "not-or")
        }
    }
}

/// a condition that needs BOTH sides of a join (it stays in the join / semi-join condition)
fn tvl_cross(r: &mut Rng, cols0: &[Col], cols1: &[Col]) -> (E, &'static str) {
    let cross_cmp = |r: &mut Rng| -> E {
        if r.chance(1, 5) {
            let (a, b) = (cols0.iter().find(|c| c.ty == Ty::Str).unwrap(), cols1.iter().find(|c| c.ty == Ty::Str).unwrap());
            let op = *r.pick(&["=", "<>"]);
            return E { sql: format!("{} {op} {}", a.sql, b.sql), lite: format!("{} {op} {}", a.sql, b.sql), plan: format!("({op} {} {})", a.plan, b.plan) };
        }
        let i0: Vec<&Col> = cols0.iter().filter(|c| matches!(c.ty, Ty::I32 | Ty::I64)).collect();
        let i1: Vec<&Col> = cols1.iter().filter(|c| matches!(c.ty, Ty::I32 | Ty::I64)).collect();
        let (a, b) = (*r.pick(&i0), *r.pick(&i1));
        let op = *r.pick(&["<", ">=", "<>", "=", ">"]);
        E { sql: format!("{} {op} {}", a.sql, b.sql), lite: format!("{} {op} {}", a.sql, b.sql), plan: format!("({op} {} {})", a.plan, b.plan) }
    };
    let bools: Vec<&Col> = cols0.iter().chain(cols1.iter()).filter(|c| c.ty == Ty::Bool).collect();
    match r.below(9) {
        0 | 1 => {
            let p = if !bools.is_empty() && r.chance(2, 3) { e_col(*r.pick(&bools)) } else { tvl_simple(r, cols0) };
            let c = cross_cmp(r);
            (e_not(&e_bin("AND", "and", &p, &c)), "not-and")
        }
        2 => {
            let q = tvl_simple(r, cols1);
            let c = cross_cmp(r);
            (e_not(&e_bin("OR", "or", &c, &q)), "not-or")
        }
        3 | 4 => {
            if r.chance(1, 2) { (tvl_in(r, cols0, cols1, true, true), "not-in-list") } else { (tvl_in(r, cols1, cols0, true, true), "not-in-list") }
        }
        5 => (tvl_in(r, cols0, cols1, false, true), "in-list"),
        6 => {
            let c1 = cross_cmp(r);
            let mut c2 = cross_cmp(r);
            for _ in 0..8 {
                if c2.plan != c1.plan {
                    break;
                }
                c2 = cross_cmp(r);
            }
            (e_not(&e_bin("AND", "and", &c1, &c2)), "not-and")
        }
        7 if !bools.is_empty() => {
            let c = cross_cmp(r);
            (e_bin("AND", "and", &e_col(*r.pick(&bools)), &c), "bool-and")
        }
        _ => {
            let c = cross_cmp(r);
            let b = if bools.is_empty() { tvl_simple(r, cols0) } else { e_col(*r.pick(&bools)) };
            (e_bin("AND", "and", &e_not(&e_bin("OR", "or", &b, &tvl_simple(r, cols1))), &c), "not-or-and")
        }
    }
}

/// Three-valued logic where a condition is READ: WHERE, ON of a nested-loop join (non-equi), ON residual, the
/// condition of [NOT] EXISTS (hash semi join with residual / nested-loop semi join), HAVING.  Conditions: a
/// nullable BOOLEAN column bare and under NOT, `[NOT] IN (list)` with NULL probes and NULL members, `NOT (p AND q)`,
/// `NOT (p OR q)` over nullable operands — at top level and under AND (where UNKNOWN must drop the row).
fn gen_tvl_query(r: &mut Rng, t0: &Tbl, t1: &Tbl) -> Query {
    let cols0: Vec<Col> = t0.cols.iter().enumerate().map(|(i, c)| Col { sql: c.0.into(), plan: format!("$0.{i}"), ty: c.1 }).collect();
    let cols1: Vec<Col> = t1.cols.iter().enumerate().map(|(i, c)| Col { sql: c.0.into(), plan: format!("$1.{i}"), ty: c.1 }).collect();
    let all: Vec<Col> = cols0.iter().chain(cols1.iter()).cloned().collect();
    let (scan0, scan1) = (scan_plan(0, cols0.len()), scan_plan(1, cols1.len()));
    let mut shape = String::from("tvl");
    let form = r.below(13);
    // (FROM … [WHERE …] in SQL, its plan, the columns the select list may use)
    let (from_sql, from_plan, out_cols): (String, String, Vec<Col>);
    let conj = |r: &mut Rng, cols: &[Col], shape: &mut String| -> E {
        // an atom, alone or under AND with a second condition (UNKNOWN AND TRUE = UNKNOWN: the row is dropped)
        let (a, tag) = tvl_atom(r, cols);
        *shape += &format!(" {tag}");
        match r.below(4) {
            0 => {
                let (b, tag2) = tvl_atom(r, cols);
                *shape += &format!("+and+{tag2}");
                e_bin("AND", "and", &a, &b)
            }
            1 => {
                *shape += "+and";
                e_bin("AND", "and", &a, &tvl_simple(r, cols))
            }
            _ => a,
        }
    };
    match form {
        0..=2 => {
            shape += " where";
            let p = conj(r, &cols0, &mut shape);
            from_sql = format!("{} WHERE {}", t0.name, p.sql);
            from_plan = format!("(filter {} {scan0})", p.plan);
            out_cols = cols0.clone();
        }
        3 => {
            shape += " join:inner where";
            let p = conj(r, &all, &mut shape);
            from_sql = format!("{} JOIN {} ON a = x WHERE {}", t0.name, t1.name, p.sql);
            from_plan = format!("(filter {} (join inner (= $0.0 $1.0) {scan0} {scan1}))", p.plan);
            out_cols = all.clone();
        }
        4..=6 => {
            let (jt_sql, jt_plan) = *r.pick(&[("JOIN", "inner"), ("JOIN", "inner"), ("LEFT JOIN", "left_outer"), ("LEFT JOIN", "left_outer"), ("RIGHT JOIN", "right_outer"), ("FULL JOIN", "full_outer")]);
            let (p, tag) = tvl_cross(r, &cols0, &cols1);
            shape += &format!(" join:{jt_plan} on-non-equi {tag}");
            from_sql = format!("{} {jt_sql} {} ON {}", t0.name, t1.name, p.sql);
            from_plan = format!("(join {jt_plan} {} {scan0} {scan1})", p.plan);
            out_cols = all.clone();
        }
        7 => {
            let (p, tag) = tvl_cross(r, &cols0, &cols1);
            shape += &format!(" join:inner on-residual {tag}");
            from_sql = format!("{} JOIN {} ON a = x AND {}", t0.name, t1.name, p.sql);
            from_plan = format!("(join inner (and (= $0.0 $1.0) {}) {scan0} {scan1})", p.plan);
            out_cols = all.clone();
        }
        8..=10 => {
            let anti = r.chance(1, 2);
            let (p, tag) = tvl_cross(r, &cols0, &cols1);
            let eq = r.chance(1, 2);
            shape += &format!(" {}{} {tag}", if anti { "not-exists" } else { "exists" }, if eq { "/eq+cond" } else { "/cond" });
            let (c_sql, c_plan) = if eq { (format!("x = a AND {}", p.sql), format!("(and (= $1.0 $0.0) {})", p.plan)) } else { (p.sql.clone(), p.plan.clone()) };
            from_sql = format!("{} WHERE {}EXISTS (SELECT * FROM {} WHERE {c_sql})", t0.name, if anti { "NOT " } else { "" }, t1.name);
            from_plan = format!("(join {} {c_plan} {scan0} {scan1})", if anti { "anti" } else { "semi" });
            out_cols = cols0.clone();
        }
        _ => {
            // HAVING over a GROUP BY key (a nullable BOOLEAN or INT key) and the group's count
            let k = if r.chance(1, 2) { cols0[4].clone() } else { r.pick(&[cols0[0].clone(), cols0[2].clone()]).clone() };
            let kcols = vec![k.clone()];
            let cnt = E { sql: "count(*)".into(), lite: "count(*)".into(), plan: "rowcount".into() };
            let p = if k.ty == Ty::Bool {
                match r.below(3) {
                    0 => e_col(&k),
                    1 => e_not(&e_col(&k)),
                    _ => e_not(&e_bin("AND", "and", &e_col(&k), &E { sql: "count(*) > 1".into(), lite: "count(*) > 1".into(), plan: "(> rowcount 1)".into() })),
                }
            } else {
                match r.below(3) {
                    0 => tvl_in(r, &kcols, &kcols, true, false),
                    1 => e_not(&e_bin("AND", "and", &E { sql: "count(*) > 1".into(), lite: "count(*) > 1".into(), plan: "(> rowcount 1)".into() }, &tvl_simple(r, &kcols))),
                    _ => e_not(&e_bin("OR", "or", &tvl_simple(r, &kcols), &E { sql: "count(*) > 2".into(), lite: "count(*) > 2".into(), plan: "(> rowcount 2)".into() })),
                }
            };
            let _ = cnt;
            shape += &format!(" group-by having {}", if k.ty == Ty::Bool { "bool-key" } else { "int-key" });
            let sql = format!("SELECT {} AS o0, count(*) AS o1 FROM {} GROUP BY {} HAVING {}", k.sql, t0.name, k.sql, p.sql);
            let plan = format!("(proj (list {} rowcount) (filter {} (hashagg (list {}) (list rowcount) {scan0})))", k.plan, p.plan, k.plan);
            return Query { shape, sql: sql.clone(), lite: sql, logical: plan, ordered: false, limit: None, scalar_sub: false, order_keys: None };
        }
    }
    let k = r.range(1, 3) as usize;
    let picked: Vec<Col> = (0..k).map(|_| r.pick(&out_cols).clone()).collect();
    let names: Vec<String> = picked.iter().enumerate().map(|(i, c)| format!("{} AS o{i}", c.sql)).collect();
    let refs: Vec<String> = picked.iter().map(|c| c.plan.clone()).collect();
    let sql = format!("SELECT {} FROM {from_sql}", names.join(", "));
    let plan = format!("(proj {} {from_plan})", list(&refs));
    Query { shape, sql: sql.clone(), lite: sql, logical: plan, ordered: false, limit: None, scalar_sub: false, order_keys: None }
}

// ---------------------------------------------------------------------------------------------
// range predicates whose two constant bounds are equal, adjacent or reversed
// ---------------------------------------------------------------------------------------------

/// `x BETWEEN lo AND hi`, `x >= lo AND x <= hi`, `lo <= x AND x <= hi`, half-open and open variants, with the
/// bounds EQUAL (a point: the rows equal to it qualify), adjacent, or reversed (empty by SQL), constants taken from
/// the values the columns hold; optionally under NOT.  `x` may be an INT / VARCHAR column or `count(*)`.
fn range_pred(r: &mut Rng, x_sql: &str, x_plan: &str, is_str: bool, allow_not: bool) -> (E, String) {
    let (lo, hi, kind): (String, String, &str) = if is_str {
        match r.below(6) {
            0..=3 => {
                let v = *r.pick(&["a", "b", "ab", ""]);
                (format!("'{v}'"), format!("'{v}'"), "equal")
            }
            4 => ("'a'".into(), "'ab'".into(), "adjacent"),
            _ => ("'b'".into(), "'a'".into(), "reversed"),
        }
    } else {
        let c = r.range(0, 3);
        match r.below(6) {
            0..=3 => (c.to_string(), c.to_string(), "equal"),
            4 => (c.to_string(), (c + 1).to_string(), "adjacent"),
            _ => ((c + 1).to_string(), c.to_string(), "reversed"),
        }
    };
    let (sql, plan, form): (String, String, &str) = match r.below(if is_str { 7 } else { 8 }) {
        0 | 1 => (format!("{x_sql} BETWEEN {lo} AND {hi}"), format!("(and (>= {x_plan} {lo}) (<= {x_plan} {hi}))"), "between"),
        2 => (format!("({x_sql} >= {lo} AND {x_sql} <= {hi})"), format!("(and (>= {x_plan} {lo}) (<= {x_plan} {hi}))"), "ge-le"),
        3 => (format!("({lo} <= {x_sql} AND {x_sql} <= {hi})"), format!("(and (<= {lo} {x_plan}) (<= {x_plan} {hi}))"), "le-le"),
        4 => (format!("({x_sql} <= {hi} AND {x_sql} >= {lo})"), format!("(and (<= {x_plan} {hi}) (>= {x_plan} {lo}))"), "le-ge"),
        5 => (format!("({x_sql} >= {lo} AND {x_sql} < {hi})"), format!("(and (>= {x_plan} {lo}) (< {x_plan} {hi}))"), "ge-lt"),
        6 => (format!("({x_sql} > {lo} AND {x_sql} <= {hi})"), format!("(and (> {x_plan} {lo}) (<= {x_plan} {hi}))"), "gt-le"),
        _ => (format!("({x_sql} > {lo} AND {x_sql} < {hi})"), format!("(and (> {x_plan} {lo}) (< {x_plan} {hi}))"), "gt-lt"),
    };
    let mut tag = format!("{kind}/{form}{}", if is_str { "/str" } else { "" });
    let e = E { sql: sql.clone(), lite: sql, plan };
    if allow_not && r.chance(1, 4) {
        tag += "/not";
        if form == "between" && r.chance(1, 2) {
            let sql = format!("{x_sql} NOT BETWEEN {lo} AND {hi}");
            return (E { sql: sql.clone(), lite: sql, plan: format!("(not {})", e.plan) }, tag);
        }
        return (e_not(&e), tag);
    }
    (e, tag)
}

fn range_pred_on(r: &mut Rng, cols: &[Col], allow_not: bool) -> (E, String) {
    let cands: Vec<&Col> = cols.iter().filter(|c| c.ty != Ty::Bool).collect();
    let mut c = *r.pick(&cands);
    if c.ty == Ty::Str && r.chance(1, 2) {
        c = *r.pick(&cands);
    }
    range_pred(r, &c.sql, &c.plan, c.ty == Ty::Str, allow_not)
}

fn gen_range_query(r: &mut Rng, t0: &Tbl, t1: &Tbl) -> Query {
    let cols0: Vec<Col> = t0.cols.iter().enumerate().map(|(i, c)| Col { sql: c.0.into(), plan: format!("$0.{i}"), ty: c.1 }).collect();
    let cols1: Vec<Col> = t1.cols.iter().enumerate().map(|(i, c)| Col { sql: c.0.into(), plan: format!("$1.{i}"), ty: c.1 }).collect();
    let all: Vec<Col> = cols0.iter().chain(cols1.iter()).cloned().collect();
    let (scan0, scan1) = (scan_plan(0, cols0.len()), scan_plan(1, cols1.len()));
    let mut shape = String::from("range");
    let (from_sql, from_plan, out_cols): (String, String, Vec<Col>);
    match r.below(12) {
        0..=2 => {
            let (mut p, tag) = range_pred_on(r, &cols0, true);
            shape += &format!(" where {tag}");
            if r.chance(1, 4) {
                p = e_bin("AND", "and", &p, &tvl_simple(r, &cols0));
                shape += "+and";
            } else if r.chance(1, 5) {
                p = e_bin("OR", "or", &p, &tvl_simple(r, &cols0));
                shape += "+or";
            }
            from_sql = format!("{} WHERE {}", t0.name, p.sql);
            from_plan = format!("(filter {} {scan0})", p.plan);
            out_cols = cols0.clone();
        }
        3 => {
            let (p, tag) = range_pred_on(r, &all, true);
            shape += &format!(" join:inner where {tag}");
            from_sql = format!("{} JOIN {} ON a = x WHERE {}", t0.name, t1.name, p.sql);
            from_plan = format!("(filter {} (join inner (= $0.0 $1.0) {scan0} {scan1}))", p.plan);
            out_cols = all.clone();
        }
        4 | 5 => {
            let left = r.chance(1, 3);
            let (p, tag) = if left { range_pred_on(r, &cols1, false) } else { range_pred_on(r, &all, true) };
            shape += &format!(" join:{} on-residual {tag}", if left { "left_outer" } else { "inner" });
            from_sql = format!("{} {} {} ON a = x AND {}", t0.name, if left { "LEFT JOIN" } else { "JOIN" }, t1.name, p.sql);
            from_plan = format!("(join {} (and (= $0.0 $1.0) {}) {scan0} {scan1})", if left { "left_outer" } else { "inner" }, p.plan);
            out_cols = all.clone();
        }
        6 => {
            let (p, tag) = range_pred_on(r, &all, true);
            shape += &format!(" join:inner on-non-equi {tag}");
            from_sql = format!("{} JOIN {} ON c < z AND {}", t0.name, t1.name, p.sql);
            from_plan = format!("(join inner (and (< $0.2 $1.2) {}) {scan0} {scan1})", p.plan);
            out_cols = all.clone();
        }
        7 | 8 => {
            let (p, tag) = range_pred_on(r, &cols1, true);
            shape += &format!(" in-subquery {tag}");
            from_sql = format!("{} WHERE a IN (SELECT x FROM {} WHERE {})", t0.name, t1.name, p.sql);
            from_plan = format!("(join semi (= $0.0 $1.0) {scan0} (filter {} {scan1}))", p.plan);
            out_cols = cols0.clone();
        }
        9 => {
            let (p, tag) = range_pred_on(r, &cols1, true);
            let anti = r.chance(1, 2);
            shape += &format!(" {} {tag}", if anti { "not-exists-subquery" } else { "exists-subquery" });
            from_sql = format!("{} WHERE {}EXISTS (SELECT * FROM {} WHERE x = a AND {})", t0.name, if anti { "NOT " } else { "" }, t1.name, p.sql);
            from_plan = format!("(join {} (= $1.0 $0.0) {scan0} (filter {} {scan1}))", if anti { "anti" } else { "semi" }, p.plan);
            out_cols = cols0.clone();
        }
        _ => {
            // HAVING: a range on the GROUP BY key or on count(*)
            let k = r.pick(&[cols0[0].clone(), cols0[1].clone(), cols0[2].clone(), cols0[3].clone()]).clone();
            let (p, tag) = if r.chance(1, 2) { range_pred(r, &k.sql, &k.plan, k.ty == Ty::Str, true) } else { range_pred(r, "count(*)", "rowcount", false, true) };
            shape += &format!(" group-by having {tag}");
            let sql = format!("SELECT {} AS o0, count(*) AS o1 FROM {} GROUP BY {} HAVING {}", k.sql, t0.name, k.sql, p.sql);
            let plan = format!("(proj (list {} rowcount) (filter {} (hashagg (list {}) (list rowcount) {scan0})))", k.plan, p.plan, k.plan);
            return Query { shape, sql: sql.clone(), lite: sql, logical: plan, ordered: false, limit: None, scalar_sub: false, order_keys: None };
        }
    }
    let k = r.range(1, 3) as usize;
    let picked: Vec<Col> = (0..k).map(|_| r.pick(&out_cols).clone()).collect();
    let names: Vec<String> = picked.iter().enumerate().map(|(i, c)| format!("{} AS o{i}", c.sql)).collect();
    let refs: Vec<String> = picked.iter().map(|c| c.plan.clone()).collect();
    let sql = format!("SELECT {} FROM {from_sql}", names.join(", "));
    let plan = format!("(proj {} {from_plan})", list(&refs));
    Query { shape, sql: sql.clone(), lite: sql, logical: plan, ordered: false, limit: None, scalar_sub: false, order_keys: None }
}

fn scan_plan(t: usize, ncols: usize) -> String {
    let cols: Vec<String> = (0..ncols).map(|c| format!("${t}.{c}")).collect();
    format!("(scan ${t} (list {}) true)", cols.join(" "))
}

fn list(xs: &[String]) -> String {
    if xs.is_empty() { "list".into() } else { format!("(list {})", xs.join(" ")) }
}

fn gen_query(r: &mut Rng, t0: &Tbl, t1: &Tbl, force_scalar: bool) -> Query {
    let cols0: Vec<Col> = t0.cols.iter().enumerate().map(|(i, c)| Col { sql: c.0.into(), plan: format!("$0.{i}"), ty: c.1 }).collect();
    let cols1: Vec<Col> = t1.cols.iter().enumerate().map(|(i, c)| Col { sql: c.0.into(), plan: format!("$1.{i}"), ty: c.1 }).collect();
    let mut shape = String::new();

    // FROM
    let (mut from_sql, mut from_plan, cols): (String, String, Vec<Col>);
    let jk = if force_scalar { 0 } else { r.below(10) };
    // a FROM item may be a sub-select with ORDER BY (same bag of rows; it is what lets the planner's
    // order rules pick the merge join / the sort aggregation instead of the hash operators)
    let sub = |t: &Tbl, keys: &[&str]| {
        format!("(SELECT {} FROM {} ORDER BY {})", t.cols.iter().map(|c| c.0).collect::<Vec<_>>().join(", "), t.name, keys.join(", "))
    };
    let mut ordered_from: Option<Col> = None;
    let mut outer_jt: &str = "";
    if jk < 5 {
        if r.chance(1, 5) {
            let oc = r.pick(&cols0[..4]).clone();
            from_sql = sub(t0, &[oc.sql.as_str()]);
            ordered_from = Some(oc);
            shape += "single-sorted";
        } else {
            from_sql = t0.name.to_string();
            shape += "single";
        }
        from_plan = scan_plan(0, t0.cols.len());
        cols = cols0.clone();
    } else {
        let (jt_sql, jt_plan) = *r.pick(&[("JOIN", "inner"), ("JOIN", "inner"), ("LEFT JOIN", "left_outer"), ("LEFT JOIN", "left_outer"), ("RIGHT JOIN", "right_outer"), ("FULL JOIN", "full_outer")]);
        outer_jt = jt_plan;
        // key pair
        let (l, rr, kname) = match r.below(8) {
            0..=3 => (0usize, 0usize, "i32=i32"),
            4 => (1, 1, "i64=i64"),
            5 => (3, 3, "str=str"),
            _ => (0, 1, "i32=i64"),
        };
        let mut on_sql = format!("{} = {}", cols0[l].sql, cols1[rr].sql);
        let mut on_plan = format!("(= {} {})", cols0[l].plan, cols1[rr].plan);
        let mut lkeys = vec![cols0[l].sql.as_str()];
        let mut rkeys = vec![cols1[rr].sql.as_str()];
        if r.chance(1, 5) {
            on_sql = format!("{on_sql} AND {} = {}", cols0[2].sql, cols1[2].sql);
            on_plan = format!("(and {on_plan} (= {} {}))", cols0[2].plan, cols1[2].plan);
            lkeys.push(cols0[2].sql.as_str());
            rkeys.push(cols1[2].sql.as_str());
            shape += "two-keys ";
        }
        // a share of the inner / left joins has a NON-equi condition only (nested-loop join)
        let mut nonequi = false;
        if (jt_plan == "inner" || jt_plan == "left_outer") && r.chance(1, 6) {
            let (op, pop) = *r.pick(&[(">", ">"), ("<=", "<="), ("<>", "<>")]);
            on_sql = format!("{} {op} {}", cols0[2].sql, cols1[2].sql);
            on_plan = format!("({pop} {} {})", cols0[2].plan, cols1[2].plan);
            nonequi = true;
            shape += "non-equi ";
        }
        // both sides sorted on the join keys => the planner turns the hash join into a merge join
        let sorted_inputs = !nonequi && r.chance(2, 5);
        if r.chance(1, 5) && jt_plan == "inner" {
            on_sql = format!("{on_sql} AND {} < {}", cols0[1].sql, cols1[1].sql);
            on_plan = format!("(and {on_plan} (< {} {}))", cols0[1].plan, cols1[1].plan);
            shape += "residual ";
        }
        from_sql = if sorted_inputs {
            shape += "sorted-inputs ";
            format!("{} {jt_sql} {} ON {on_sql}", sub(t0, &lkeys), sub(t1, &rkeys))
        } else {
            format!("{} {jt_sql} {} ON {on_sql}", t0.name, t1.name)
        };
        from_plan = format!("(join {jt_plan} {on_plan} {} {})", scan_plan(0, t0.cols.len()), scan_plan(1, t1.cols.len()));
        cols = cols0.iter().chain(cols1.iter()).cloned().collect();
        shape += &format!("join:{jt_plan}:{kname}");
    }
    let mut lite_from = from_sql.clone();

    // WHERE (plain predicate and/or one subquery conjunct)
    let mut where_sql: Vec<String> = vec![];
    let mut where_lite: Vec<String> = vec![];
    if outer_jt != "" && outer_jt != "inner" && r.chance(2, 5) {
        // WHERE over an OUTER join that lets the NULL-padded rows through: a conjunction of 2–3 predicates on
        // the padded side's columns, none of which rejects NULLs (`r.k IS NULL`, `(r.b IS NULL OR r.b > 2)`,
        // `(r.k IS NULL OR l.a > 1)`) — incl. the anti-join idiom `LEFT JOIN … WHERE r.key IS NULL AND …`
        let n0 = cols0.len();
        let (padded, other): (Vec<Col>, Vec<Col>) = match outer_jt {
            "left_outer" => (cols[n0..].to_vec(), cols[..n0].to_vec()),
            "right_outer" => (cols[..n0].to_vec(), cols[n0..].to_vec()),
            _ => if r.chance(1, 2) { (cols[n0..].to_vec(), cols[..n0].to_vec()) } else { (cols[..n0].to_vec(), cols[n0..].to_vec()) },
        };
        let pints: Vec<Col> = padded.iter().filter(|c| matches!(c.ty, Ty::I32 | Ty::I64)).cloned().collect();
        let oints: Vec<Col> = other.iter().filter(|c| matches!(c.ty, Ty::I32 | Ty::I64)).cloned().collect();
        let k = r.range(2, 3);
        let mut parts: Vec<E> = vec![];
        for _ in 0..k {
            let pc = r.pick(&padded).clone();
            let isnull = E { sql: format!("{} IS NULL", pc.sql), lite: format!("{} IS NULL", pc.sql), plan: format!("(isnull {})", pc.plan) };
            let e = match r.below(4) {
                0 | 1 => isnull,
                2 => {
                    let c = r.pick(&pints).clone();
                    let v = r.range(-1, 4);
                    let (op, pop) = *r.pick(&[(">", ">"), ("<=", "<="), ("=", "="), ("<>", "<>")]);
                    E { sql: format!("({} OR {} {op} {v})", isnull.sql, c.sql), lite: format!("({} OR {} {op} {v})", isnull.sql, c.sql),
                        plan: format!("(or {} ({pop} {} {v}))", isnull.plan, c.plan) }
                }
                _ => {
                    let c = r.pick(&oints).clone();
                    let v = r.range(-1, 4);
                    let (op, pop) = *r.pick(&[(">", ">"), ("<=", "<="), ("<>", "<>")]);
                    E { sql: format!("({} OR {} {op} {v})", isnull.sql, c.sql), lite: format!("({} OR {} {op} {v})", isnull.sql, c.sql),
                        plan: format!("(or {} ({pop} {} {v}))", isnull.plan, c.plan) }
                }
            };
            parts.push(e);
        }
        let mut p = parts[0].clone();
        for q in &parts[1..] {
            p = E { sql: format!("{} AND {}", p.sql, q.sql), lite: format!("{} AND {}", p.lite, q.lite), plan: format!("(and {} {})", p.plan, q.plan) };
        }
        from_plan = format!("(filter {} {from_plan})", p.plan);
        where_sql.push(p.sql);
        where_lite.push(p.lite);
        shape += " where-null-tolerant";
    } else if r.chance(2, 5) {
        let p = gen_pred(r, &cols, 1);
        from_plan = format!("(filter {} {from_plan})", p.plan);
        where_sql.push(p.sql);
        where_lite.push(p.lite);
        shape += " where";
    }
    let mut scalar_sub = false;
    if force_scalar {
        // correlated SCALAR aggregate subquery: `<outer col> <cmp> (SELECT agg FROM t1 WHERE corr [AND f]
        // [GROUP BY corr col])`, `(…) = k`, `(…) IS [NOT] NULL`.  L1: nested iteration (`applyagg`).
        scalar_sub = true;
        let sub_filter = if r.chance(1, 3) { Some(gen_pred(r, &cols1, 0)) } else { None };
        let mut sub_plan = scan_plan(1, t1.cols.len());
        if let Some(f) = &sub_filter {
            sub_plan = format!("(filter {} {sub_plan})", f.plan);
        }
        let (o, i) = if r.chance(1, 4) { (1usize, 1usize) } else { (0, 0) };
        let (agg_sql, agg_plan) = match r.below(6) {
            0 | 1 => ("count(*)".to_string(), "rowcount".to_string()),
            2 => (format!("count({})", cols1[2].sql), format!("(count {})", cols1[2].plan)),
            3 => (format!("sum({})", cols1[2].sql), format!("(sum {})", cols1[2].plan)),
            4 => (format!("min({})", cols1[2].sql), format!("(min {})", cols1[2].plan)),
            _ => (format!("max({})", cols1[2].sql), format!("(max {})", cols1[2].plan)),
        };
        let gb = r.chance(1, 4);
        let subq = format!(
            "(SELECT {agg_sql} FROM {} WHERE {} = {}{}{})",
            t1.name,
            cols1[i].sql,
            cols0[o].sql,
            sub_filter.as_ref().map(|f| format!(" AND {}", f.sql)).unwrap_or_default(),
            if gb { format!(" GROUP BY {}", cols1[i].sql) } else { String::new() }
        );
        let corr = format!("(= {} {})", cols1[i].plan, cols0[o].plan);
        let form = if gb { r.below(2) } else { r.below(3) };
        let (p_sql, p_plan) = match form {
            0 => {
                let oc = &cols0[2];
                let (op, pop) = *r.pick(&[("=", "="), ("<", "<"), (">=", ">="), ("<>", "<>")]);
                (format!("{} {op} {subq}", oc.sql), format!("({pop} {} {agg_plan})", oc.plan))
            }
            1 => {
                let k = r.range(0, 2);
                let (op, pop) = *r.pick(&[("=", "="), (">", ">"), ("<=", "<=")]);
                (format!("{subq} {op} {k}"), format!("({pop} {agg_plan} {k})"))
            }
            _ => {
                if r.chance(1, 2) {
                    (format!("{subq} IS NULL"), format!("(isnull {agg_plan})"))
                } else {
                    (format!("{subq} IS NOT NULL"), format!("(not (isnull {agg_plan}))"))
                }
            }
        };
        from_plan = format!("(filter {p_plan} (applyagg @MODE@ {} {agg_plan} {corr} {from_plan} {sub_plan}))", if gb { 1 } else { 0 });
        where_lite.push(p_sql.clone());
        where_sql.push(p_sql);
        shape += &format!(" scalar-sub/{}{}", agg_sql.split('(').next().unwrap(), if agg_sql == "count(*)" { "*" } else { "" });
        shape += if gb { "/group-by" } else { "" };
        shape += ["/cmp-col", "/cmp-const", "/is-null"][form as usize];
    }
    if !force_scalar && jk < 5 && r.chance(1, 3) {
        // subquery over t1 (only when t1 is not already in FROM)
        let sub_filter = if r.chance(1, 3) { Some(gen_pred(r, &cols1, 0)) } else { None };
        let mut sub_plan = scan_plan(1, t1.cols.len());
        let mut sub_where = String::new();
        if let Some(f) = &sub_filter {
            sub_plan = format!("(filter {} {sub_plan})", f.plan);
            sub_where = format!(" WHERE {}", f.sql);
        }
        let (o, i) = if r.chance(1, 4) { (1usize, 1usize) } else { (0, 0) };
        let kind = r.below(4);
        // correlation of EXISTS / NOT EXISTS: equality (hash semi/anti join), equality AND a non-equi
        // comparison (hash semi/anti join with residual), or a non-equi comparison only (nested loop)
        let corr = r.below(3);
        let (nop, npop) = *r.pick(&[("<", "<"), (">=", ">="), ("<>", "<>")]);
        let ne_sql = format!("{} {nop} {}", cols1[2].sql, cols0[2].sql);
        let ne_plan = format!("({npop} {} {})", cols1[2].plan, cols0[2].plan);
        let eq_sql = format!("{} = {}", cols1[i].sql, cols0[o].sql);
        let eq_plan = format!("(= {} {})", cols1[i].plan, cols0[o].plan);
        let (corr_sql, corr_plan) = match corr {
            0 => (eq_sql.clone(), eq_plan.clone()),
            1 => (format!("{eq_sql} AND {ne_sql}"), format!("(and {eq_plan} {ne_plan})")),
            _ => (ne_sql.clone(), ne_plan.clone()),
        };
        let (s, l, jt, on) = match kind {
            0 => (
                format!("{} IN (SELECT {} FROM {}{sub_where})", cols0[o].sql, cols1[i].sql, t1.name),
                String::new(),
                "semi",
                format!("(= {} {})", cols0[o].plan, cols1[i].plan),
            ),
            1 => (
                format!("{} NOT IN (SELECT {} FROM {}{sub_where})", cols0[o].sql, cols1[i].sql, t1.name),
                String::new(),
                "anti",
                // NOT IN: the row survives only if every comparison is FALSE
                format!("(or (= {0} {1}) (isnull (= {0} {1})))", cols0[o].plan, cols1[i].plan),
            ),
            2 => (
                format!(
                    "EXISTS (SELECT * FROM {} WHERE {corr_sql}{})",
                    t1.name,
                    sub_filter.as_ref().map(|f| format!(" AND {}", f.sql)).unwrap_or_default()
                ),
                String::new(),
                "semi",
                corr_plan.clone(),
            ),
            _ => (
                format!(
                    "NOT EXISTS (SELECT * FROM {} WHERE {corr_sql}{})",
                    t1.name,
                    sub_filter.as_ref().map(|f| format!(" AND {}", f.sql)).unwrap_or_default()
                ),
                String::new(),
                "anti",
                corr_plan.clone(),
            ),
        };
        let _ = l;
        from_plan = format!("(join {jt} {on} {from_plan} {sub_plan})");
        where_lite.push(s.clone());
        where_sql.push(s);
        shape += ["", " in", " not-in", " exists", " not-exists"][kind as usize + 1];
        if kind >= 2 {
            shape += ["", "/eq+ne", "/ne"][corr as usize];
        }
    }
    if !where_sql.is_empty() {
        from_sql = format!("{from_sql} WHERE {}", where_sql.join(" AND "));
        lite_from = format!("{lite_from} WHERE {}", where_lite.join(" AND "));
    }

    // SELECT list
    let ints: Vec<Col> = cols.iter().filter(|c| matches!(c.ty, Ty::I32 | Ty::I64)).cloned().collect();
    let strs: Vec<Col> = cols.iter().filter(|c| c.ty == Ty::Str).cloned().collect();
    let sk = r.below(10);
    let (sel_sql, sel_lite, mut plan, out_n): (String, String, String, usize);
    if sk < 3 {
        // plain projection (maybe DISTINCT)
        let k = r.range(1, 3) as usize;
        let picked: Vec<Col> = (0..k).map(|_| r.pick(&cols).clone()).collect();
        let names: Vec<String> = picked.iter().enumerate().map(|(i, c)| format!("{} AS o{i}", c.sql)).collect();
        let refs: Vec<String> = picked.iter().map(|c| c.plan.clone()).collect();
        let distinct = r.chance(1, 3);
        // duplicates in a key list would be one e-node: dedup for the distinct rendering
        let mut uniq: Vec<String> = vec![];
        for x in &refs {
            if !uniq.contains(x) {
                uniq.push(x.clone());
            }
        }
        plan = if distinct {
            format!("(proj {} (hashagg {} list {from_plan}))", list(&refs), list(&uniq))
        } else {
            format!("(proj {} {from_plan})", list(&refs))
        };
        sel_sql = format!("SELECT {}{} FROM {from_sql}", if distinct { "DISTINCT " } else { "" }, names.join(", "));
        sel_lite = format!("SELECT {}{} FROM {lite_from}", if distinct { "DISTINCT " } else { "" }, names.join(", "));
        out_n = k;
        shape += if distinct { " distinct" } else { " proj" };
    } else {
        // aggregates, grouped or scalar
        let grouped = sk < 8;
        let keys: Vec<Col> = if grouped && ordered_from.is_some() && r.chance(2, 3) {
            vec![ordered_from.clone().unwrap()]
        } else if grouped {
            let k = r.range(1, 2) as usize;
            let mut v: Vec<Col> = vec![];
            while v.len() < k {
                let c = r.pick(&cols).clone();
                if !v.iter().any(|x| x.plan == c.plan) && c.ty != Ty::Bool {
                    v.push(c);
                }
            }
            v
        } else {
            vec![]
        };
        let na = r.range(1, 3);
        let mut aggs: Vec<(String, String)> = vec![]; // (sql, plan)
        for _ in 0..na {
            let a = match r.below(9) {
                0 | 1 => {
                    let c = r.pick(&ints);
                    (format!("sum({})", c.sql), format!("(sum {})", c.plan))
                }
                2 => {
                    let c = r.pick(&cols);
                    (format!("count({})", c.sql), format!("(count {})", c.plan))
                }
                3 => ("count(*)".to_string(), "rowcount".to_string()),
                4 => {
                    let c = r.pick(&ints);
                    (format!("min({})", c.sql), format!("(min {})", c.plan))
                }
                5 => {
                    let c = if r.chance(1, 2) && !strs.is_empty() { r.pick(&strs) } else { r.pick(&ints) };
                    (format!("max({})", c.sql), format!("(max {})", c.plan))
                }
                6 | 7 => {
                    let c = r.pick(&cols);
                    if c.ty == Ty::Bool {
                        ("count(*)".to_string(), "rowcount".to_string())
                    } else {
                        (format!("count(distinct {})", c.sql), format!("(count-distinct {})", c.plan))
                    }
                }
                _ => {
                    let c = r.pick(&ints);
                    let d = r.pick(&ints);
                    (format!("sum({} + {})", c.sql, d.sql), format!("(sum (+ {} {}))", c.plan, d.plan))
                }
            };
            if !aggs.iter().any(|x| x.1 == a.1) {
                aggs.push(a);
            }
        }
        let key_refs: Vec<String> = keys.iter().map(|c| c.plan.clone()).collect();
        let agg_refs: Vec<String> = aggs.iter().map(|a| a.1.clone()).collect();
        let mut names: Vec<String> = keys.iter().map(|c| c.sql.clone()).collect();
        names.extend(aggs.iter().map(|a| a.0.clone()));
        let names: Vec<String> = names.iter().enumerate().map(|(i, n)| format!("{n} AS o{i}")).collect();
        plan = if grouped {
            format!("(hashagg {} {} {from_plan})", list(&key_refs), list(&agg_refs))
        } else {
            format!("(agg {} {from_plan})", list(&agg_refs))
        };
        let mut tail = String::new();
        if grouped {
            tail = format!(" GROUP BY {}", keys.iter().map(|c| c.sql.clone()).collect::<Vec<_>>().join(", "));
            if r.chance(1, 5) && !aggs[0].0.starts_with("max") && !aggs[0].0.starts_with("min") {
                let a = &aggs[0];
                let v = r.range(0, 3);
                tail += &format!(" HAVING {} > {v}", a.0);
                plan = format!("(filter (> {} {v}) {plan})", a.1);
                shape += " having";
            }
        }
        let mut all_refs = key_refs.clone();
        all_refs.extend(agg_refs.iter().cloned());
        plan = format!("(proj {} {plan})", list(&all_refs));
        sel_sql = format!("SELECT {} FROM {from_sql}{tail}", names.join(", "));
        sel_lite = format!("SELECT {} FROM {lite_from}{tail}", names.join(", "));
        out_n = names.len();
        shape += if grouped { " group-by" } else { " scalar-agg" };
        shape += &format!(" [{}]", aggs.iter().map(|a| a.0.split('(').next().unwrap().to_string() + if a.0.contains("distinct") { "-distinct" } else { "" }).collect::<Vec<_>>().join(","));
    }

    // ORDER BY all output columns (so the sequence is determined up to equal rows) + LIMIT
    let mut sql = sel_sql;
    let mut lite = sel_lite;
    let mut ordered = false;
    if r.chance(1, 4) {
        ordered = true;
        let descs: Vec<bool> = (0..out_n).map(|_| r.chance(1, 3)).collect();
        let ob: Vec<String> = (0..out_n).map(|i| format!("o{i}{}", if descs[i] { " DESC" } else { "" })).collect();
        let keys: Vec<String> = (0..out_n).map(|i| if descs[i] { format!("(desc #{i})") } else { format!("#{i}") }).collect();
        sql += &format!(" ORDER BY {}", ob.join(", "));
        lite += &format!(" ORDER BY {}", ob.join(", "));
        plan = format!("(order {} {plan})", list(&keys));
        shape += " order-by";
        if r.chance(1, 2) {
            let n = r.range(0, 4);
            let off = r.range(0, 2);
            sql += &format!(" LIMIT {n} OFFSET {off}");
            lite += &format!(" LIMIT {n} OFFSET {off}");
            plan = format!("(limit {n} {off} {plan})");
            shape += " limit";
        }
    }
    let mut limit = None;
    if !ordered && r.chance(1, 5) {
        let n = *r.pick(&[0i64, 1, 2, 3, 5, 20]);
        let off = *r.pick(&[0i64, 0, 1, 2, 4]);
        sql += &format!(" LIMIT {n} OFFSET {off}");
        shape += " limit-unordered";
        limit = Some((n, off));
    }
    Query { shape, sql, lite, logical: plan, ordered, limit, scalar_sub, order_keys: None }
}

fn gen(n: usize, out: &str) {
    let mut r = Rng::from_env();
    let mut s = String::new();
    for id in 0..n {
        // layouts: 0 plain, 1 clustered (partners in one chosen chunk), 2 large (> 1024 rows; at most one
        // of the two tables, the other stays small so that nested loops stay cheap)
        let (l0, l1) = match r.below(100) {
            0..=2 => (2, 0),
            3..=6 => (0, 2),
            7..=21 => (0, 1),
            22..=29 => (1, 0),
            30..=34 => (1, 1),
            _ => (0, 0),
        };
        // 14 % of the triples carry a correlated scalar aggregate subquery; half of them over an outer
        // table with duplicate rows (layout 3)
        let force_scalar = r.chance(14, 100);
        let l0 = if force_scalar && l0 != 2 && r.chance(1, 2) { 3 } else { l0 };
        let t0 = gen_table(&mut r, "t0", vec![("a", Ty::I32, true), ("b", Ty::I64, true), ("c", Ty::I32, false), ("s", Ty::Str, true), ("d", Ty::Bool, false)], l0);
        // 8 % of the triples: ORDER BY on the padded side's key over an outer join, t1 keyed (PRIMARY KEY x,
        // several INSERTs), mostly on the disk engine
        let force_orderpad = !force_scalar && r.chance(8, 100);
        let t1 = if force_orderpad {
            gen_keyed_table(&mut r, "t1", vec![("x", Ty::I32, true), ("y", Ty::I64, true), ("z", Ty::I32, false), ("w", Ty::Str, true)])
        } else {
            gen_table(&mut r, "t1", vec![("x", Ty::I32, true), ("y", Ty::I64, true), ("z", Ty::I32, false), ("w", Ty::Str, true)], l1)
        };
        // 16 % of the triples: clause combinations on one select (DISTINCT with GROUP BY, HAVING on an
        // unselected key, GROUP BY expressions, DISTINCT + ORDER BY + LIMIT, repeated items)
        let force_mix = !force_scalar && !force_orderpad && r.chance(16, 100);
        // 14 % of the triples: three-valued logic where a condition is read (nullable BOOLEAN bare / under NOT,
        // [NOT] IN (list), NOT (p AND q), NOT (p OR q) in WHERE / ON / EXISTS / HAVING)
        let force_tvl = !force_scalar && !force_orderpad && !force_mix && r.chance(14, 100);
        // 10 % of the triples: range predicates with equal / adjacent / reversed constant bounds (BETWEEN c AND c,
        // x >= c AND x <= c, half-open, under NOT) in WHERE / ON / IN and EXISTS subqueries / HAVING
        let force_range = !force_scalar && !force_orderpad && !force_mix && !force_tvl && r.chance(10, 100);
        let q = if force_orderpad {
            gen_orderpad_query(&mut r, &t0, &t1)
        } else if force_mix {
            gen_clausemix_query(&mut r, &t0, &t1)
        } else if force_tvl {
            gen_tvl_query(&mut r, &t0, &t1)
        } else if force_range {
            gen_range_query(&mut r, &t0, &t1)
        } else {
            gen_query(&mut r, &t0, &t1, force_scalar)
        };
        let tj = |t: &Tbl| json!({"name": t.name, "pk": t.pk, "cols": t.cols.iter().enumerate().map(|(j, c)| json!([c.0, c.1.tag(), if t.pk == Some(j) { format!("{} primary key", c.1.sql()) } else { c.1.sql().to_string() }])).collect::<Vec<_>>(), "chunks": t.chunks});
        let v = json!({"id": id, "shape": q.shape, "tables": [tj(&t0), tj(&t1)], "sql": q.sql, "sqlite": q.lite, "logical": q.logical, "ordered": q.ordered,
            "limit": q.limit.map(|l| json!([l.0, l.1])), "disk": if force_orderpad { r.chance(4, 5) } else { r.chance(2, 5) }, "scalar_sub": q.scalar_sub,
            "order_keys": q.order_keys});
        s += &v.to_string();
        s.push('\n');
    }
    std::fs::write(out, s).unwrap();
}

// ---------------------------------------------------------------------------------------------
// runner
// ---------------------------------------------------------------------------------------------

fn rows_text(rows: &[Vec<String>]) -> String {
    let mut s = String::new();
    for r in rows {
        s.push('(');
        s.push_str(&r.join(" "));
        s.push(')');
    }
    s
}

fn run_engine(rt: &tokio::runtime::Runtime, v: &Value, id: &str, disk: bool) {
    let db = if disk {
        match catch(|| rt.block_on(risinglight::Database::new_on_disk(risinglight::storage::SecondaryStorageOptions::default_for_test()))) {
            Ok(db) => db,
            Err(_) => {
                println!("{id}\tloaderr ; \t");
                return;
            }
        }
    } else {
        risinglight::Database::new_in_memory()
    };
    let mut ok = true;
    for t in v["tables"].as_array().unwrap() {
        let cols: Vec<String> = t["cols"].as_array().unwrap().iter().map(|c| format!("{} {}", c[0].as_str().unwrap(), c[2].as_str().unwrap())).collect();
        let sql = format!("create table {}({})", t["name"].as_str().unwrap(), cols.join(", "));
        if !matches!(run_sql(rt, &db, &sql), Outcome::Ok(_)) {
            ok = false;
        }
        for c in t["chunks"].as_array().unwrap() {
            let rows: Vec<String> = c
                .as_array()
                .unwrap()
                .iter()
                .map(|r| format!("({})", r.as_array().unwrap().iter().map(|x| canon_to_sql(x.as_str().unwrap())).collect::<Vec<_>>().join(",")))
                .collect();
            let sql = format!("insert into {} values {}", t["name"].as_str().unwrap(), rows.join(","));
            if !matches!(run_sql(rt, &db, &sql), Outcome::Ok(_)) {
                ok = false;
            }
        }
    }
    if !ok {
        println!("{id}\tloaderr ; \t");
        return;
    }
    let sql = v["sql"].as_str().unwrap();
    let trace = std::env::var("C02_TRACE").is_ok();
    // bind + optimise exactly like Database::run, keep the plan text
    let planned = catch(|| {
        let bound = db.verif_bind(sql)?;
        if trace {
            eprintln!("{id} bound {}", bound[0]);
        }
        let opt = rt.block_on(db.verif_optimizer())?;
        if trace {
            eprintln!("{id} optimizer ready");
        }
        let p = opt.optimize(bound[0].clone());
        if trace {
            eprintln!("{id} optimised {p}");
        }
        Ok::<_, risinglight::Error>(p)
    });
    let (plan_text, plan_rows) = match planned {
        Err(p) => (format!("panic {}", p.replace(['\t', '\n'], " ")), None),
        Ok(Err(e)) => (format!("err {}", e.to_string().replace(['\t', '\n'], " ")), None),
        Ok(Ok(plan)) => {
            let r = catch(|| rt.block_on(db.verif_run_plan(&plan)));
            let rows = match r {
                Ok(Ok(chunks)) => Some(canon_rows_of(&chunks)),
                _ => None,
            };
            (plan.to_string(), rows)
        }
    };
    let direct = run_sql(rt, &db, sql);
    let (status, rows) = match &direct {
        Outcome::Ok(rows) => ("ok".to_string(), rows.clone()),
        Outcome::Err(e) => (format!("err {}", e.replace(['\t', '\n', ';'], " ")), vec![]),
        Outcome::Panic(p) => (format!("panic {}", p.replace(['\t', '\n', ';'], " ")), vec![]),
    };
    // the plan we print must be the plan that produced the answer
    let mut consistent = "same";
    if let (Outcome::Ok(a), Some(b)) = (&direct, &plan_rows) {
        let (mut a2, mut b2) = (a.clone(), b.clone());
        a2.sort();
        b2.sort();
        if a2 != b2 {
            consistent = "plan-run-differs";
        }
    }
    println!("{id}\t{status} ; {}\t{plan_text}\t{consistent}", rows_text(&rows));
    // (no shutdown for the disk engine: it waits for the 1 s compactor tick; the database and its
    // background tasks are dropped with `db`, everything lives in the in-memory IO backend)
}

/// Watchdog: a statement that does not come back within `C02_TIMEOUT_S` (default 20 s) is reported
/// as `timeout` and the process exits with code 3 (a stuck optimizer can not be interrupted); the
/// check restarts the harness after that case (`c02 run <cases> <first line index>`).
static CURRENT: std::sync::Mutex<Option<(String, std::time::Instant)>> = std::sync::Mutex::new(None);

fn begin(key: &str) {
    *CURRENT.lock().unwrap() = Some((key.to_string(), std::time::Instant::now()));
}

fn run(path: &str, start: usize) {
    let limit: u64 = std::env::var("C02_TIMEOUT_S").ok().and_then(|s| s.parse().ok()).unwrap_or(20);
    std::thread::spawn(move || loop {
        std::thread::sleep(std::time::Duration::from_millis(250));
        let cur = CURRENT.lock().unwrap().clone();
        if let Some((key, t0)) = cur {
            if t0.elapsed().as_secs() >= limit {
                println!("{key}\ttimeout ; \t\tstuck");
                std::process::exit(3);
            }
        }
    });
    let rt = runtime();
    for (k, line) in read_lines(path).into_iter().enumerate() {
        if k < start {
            continue;
        }
        let v: Value = serde_json::from_str(&line).expect("case json");
        let id = v["id"].as_str().map(|s| s.to_string()).unwrap_or_else(|| v["id"].to_string());
        begin(&id);
        run_engine(&rt, &v, &id, false);
        if v["disk"].as_bool().unwrap_or(false) && std::env::var("C02_NO_DISK").is_err() {
            let key = format!("{id}@disk");
            begin(&key);
            run_engine(&rt, &v, &key, true);
        }
        *CURRENT.lock().unwrap() = None;
    }
}

fn main() {
    let args: Vec<String> = std::env::args().collect();
    match args.get(1).map(|s| s.as_str()) {
        Some("gen") => gen(args[2].parse().unwrap(), &args[3]),
        Some("run") => run(&args[2], args.get(3).and_then(|s| s.parse().ok()).unwrap_or(0)),
        _ => panic!("usage: c02 gen <n> <out> | c02 run <cases>"),
    }
}
