//! C01/C17 harness: runs SQL on the real implementation under several optimizer modes.
//!
//! `c01 sql <requests.jsonl>` — one JSON request per line:
//!   {"id": "...", "engine": "mem"|"disk", "setup": ["sql", ...],
//!    "queries": [{"sql": "...", "opt": "on"|"off"|"custom", "exclude": ["rule-name", ...],
//!                 "plans": true|false}]}
//! One JSON answer per line: {"id", "setup_ok", "results": [{"class": "ok|err|panic",
//!   "rows": [[canon, ...], ...], "msg": "...", "bound": "...", "optimized": "..."}]}
//!
//! Modes: "on" = `Database::run` (the real optimizer), "off" = the bound plan executed as is
//! (what `PRAGMA disable_optimizer` does), "custom" = the same three-stage procedure as
//! `Optimizer::optimize`, re-assembled here from the re-exported rule lists with the named
//! rules left out (used to attribute an on/off difference to a known-unsound rule, and to
//! show that the remaining rules alone do not change results).
use std::collections::HashSet;

use egg::Language;

use rlverif::risinglight::planner::verif as pv;
use rlverif::risinglight::planner::{Expr, ExprAnalysis, RecExpr};
use rlverif::risinglight::storage::SecondaryStorageOptions;
use rlverif::risinglight::Database;
use rlverif::*;
use serde_json::{json, Value};

fn rule_list(name: &str) -> Option<Vec<pv::Rewrite>> {
    Some(match name {
        "expr::rules" => pv::expr::rules(),
        "expr::and_rules" => pv::expr::and_rules(),
        "plan::always_better_rules" => pv::plan::always_better_rules(),
        "plan::subquery_rules" => pv::plan::subquery_rules(),
        "plan::predicate_pushdown_rules" => pv::plan::predicate_pushdown_rules(),
        "plan::projection_pushdown_rules" => pv::plan::projection_pushdown_rules(),
        "plan::index_scan_rules" => pv::plan::index_scan_rules(),
        "plan::join_reorder_rules" => pv::plan::join_reorder_rules(),
        "plan::hash_join_rules" => pv::plan::hash_join_rules(),
        "order::order_rules" => pv::order::order_rules(),
        "range::filter_scan_rule" => pv::range::filter_scan_rule(),
        _ => return None,
    })
}

/// Stage composition as extracted from optimizer.rs by the translator (passed in env
/// VERIF_STAGES as JSON: [[lists...], iterations, iter_limit] x 3, stage 2 including the extra
/// range rules when the engine enables them).
fn custom_optimize(analysis: &ExprAnalysis, mut expr: RecExpr, exclude: &HashSet<String>, stages: &Value) -> Result<RecExpr, String> {
    let mut cost = f32::MAX;
    for st in stages.as_array().ok_or("bad stages")? {
        let lists = st["lists"].as_array().ok_or("bad stage lists")?;
        let iteration = st["iterations"].as_u64().ok_or("bad iterations")? as usize;
        let iter_limit = st["iter_limit"].as_u64().ok_or("bad iter_limit")? as usize;
        let mut rules: Vec<pv::Rewrite> = vec![];
        for l in lists {
            let name = l.as_str().unwrap();
            if name == "range::filter_scan_rule" && !analysis.config.enable_range_filter_scan {
                continue;
            }
            let mut rs = rule_list(name).ok_or_else(|| format!("unknown rule list {name}"))?;
            rs.retain(|r| !exclude.contains(r.name.as_str()));
            rules.append(&mut rs);
        }
        for _ in 0..iteration {
            let runner = egg::Runner::<_, _, ()>::new(analysis.clone())
                .with_expr(&expr)
                .with_iter_limit(iter_limit)
                .run(rules.iter());
            let cost_fn = pv::CostFn { egraph: &runner.egraph };
            let extractor = egg::Extractor::new(&runner.egraph, cost_fn);
            let (cost0, best) = extractor.find_best(runner.roots[0]);
            expr = best;
            if cost0 >= cost {
                break;
            }
            cost = cost0;
        }
    }
    Ok(expr)
}

fn is_set_or_pragma(plan: &RecExpr) -> bool {
    matches!(plan.as_ref().last(), Some(Expr::Pragma(_)) | Some(Expr::Set(_)))
}

const ALL_LISTS: &[&str] = &[
    "expr::rules", "expr::and_rules", "plan::always_better_rules", "plan::subquery_rules",
    "plan::predicate_pushdown_rules", "plan::projection_pushdown_rules", "plan::index_scan_rules",
    "plan::join_reorder_rules", "plan::hash_join_rules", "order::order_rules", "range::filter_scan_rule",
];

/// Executes a plan given as an s-expression, as it is.  With `"equiv": {"rhs": plan, "rules":
/// [names]}` it also saturates an e-graph holding both plans with exactly the named rules and
/// reports whether egg puts them in one e-class (i.e. the rule really rewrites one into the other).
/// Plan text does not carry schema ids (`$0.1` parses as schema 0 = the system schema): move
/// every table / column reference to the default user schema (id 1), where generated tables live.
fn to_user_schema(e: &RecExpr) -> RecExpr {
    let mut out = RecExpr::default();
    for n in e.as_ref() {
        let n2 = match n.clone() {
            Expr::Column(mut c) => {
                c.schema_id = 1;
                Expr::Column(c)
            }
            Expr::Table(mut t) => {
                t.schema_id = 1;
                Expr::Table(t)
            }
            other => other,
        };
        out.add(n2);
    }
    out
}

fn run_plan(rt: &tokio::runtime::Runtime, db: &Database, q: &Value) -> Value {
    let mut out = json!({});
    let text = q["plan"].as_str().unwrap_or("");
    let r = catch(|| -> Result<Vec<Vec<String>>, String> {
        let plan: RecExpr = text.parse().map_err(|e| format!("plan parse: {e:?}"))?;
        let plan = to_user_schema(&plan);
        if let Some(eq) = q.get("equiv") {
            let rhs: RecExpr = eq["rhs"].as_str().unwrap_or("").parse().map_err(|e| format!("rhs parse: {e:?}"))?;
            let rhs = to_user_schema(&rhs);
            let names: HashSet<String> = eq["rules"].as_array().map(|a| a.iter().filter_map(|x| x.as_str().map(String::from)).collect()).unwrap_or_default();
            let mut rules: Vec<pv::Rewrite> = vec![];
            for l in ALL_LISTS {
                for r in rule_list(l).unwrap() {
                    if names.contains(r.name.as_str()) && !rules.iter().any(|x| x.name == r.name) {
                        rules.push(r);
                    }
                }
            }
            let o = rt.block_on(db.verif_optimizer()).map_err(|e| e.to_string())?;
            let runner = egg::Runner::<_, _, ()>::new(o.verif_analysis())
                .with_expr(&plan)
                .with_expr(&rhs)
                .with_iter_limit(4)
                .run(rules.iter());
            let same = runner.egraph.find(runner.roots[0]) == runner.egraph.find(runner.roots[1]);
            out["equiv"] = json!(same);
            out["rules_found"] = json!(rules.len());
        }
        if let Some(al) = q.get("alts") {
            // saturate an e-graph holding the plan with exactly the named rules, then build one
            // plan per e-node of the root class (children: the cheapest representative) and run each
            let names: HashSet<String> = al["rules"].as_array().map(|a| a.iter().filter_map(|x| x.as_str().map(String::from)).collect()).unwrap_or_default();
            let iters = al["iters"].as_u64().unwrap_or(2) as usize;
            let mut rules: Vec<pv::Rewrite> = vec![];
            for l in ALL_LISTS {
                for r in rule_list(l).unwrap() {
                    if names.contains(r.name.as_str()) && !rules.iter().any(|x| x.name == r.name) {
                        rules.push(r);
                    }
                }
            }
            let o = rt.block_on(db.verif_optimizer()).map_err(|e| e.to_string())?;
            let runner = egg::Runner::<_, _, ()>::new(o.verif_analysis())
                .with_expr(&plan)
                .with_iter_limit(iters)
                .run(rules.iter());
            let root = runner.egraph.find(runner.roots[0]);
            let cost_fn = pv::CostFn { egraph: &runner.egraph };
            let extractor = egg::Extractor::new(&runner.egraph, cost_fn);
            let mut alts = vec![];
            for node in runner.egraph[root].nodes.clone() {
                let expr: RecExpr = node.join_recexprs(|id| extractor.find_best(id).1);
                let text = expr.to_string();
                let r = catch(|| -> Result<Vec<Vec<String>>, String> {
                    let chunks = rt.block_on(db.verif_run_plan(&expr)).map_err(|e| e.to_string())?;
                    Ok(canon_rows_of(&chunks))
                });
                alts.push(match r {
                    Ok(Ok(rows)) => json!({"plan": text, "class": "ok", "rows": rows}),
                    Ok(Err(e)) => json!({"plan": text, "class": "err", "msg": e.chars().take(300).collect::<String>()}),
                    Err(p) => json!({"plan": text, "class": "panic", "msg": p.chars().take(300).collect::<String>()}),
                });
            }
            out["alts"] = json!(alts);
            out["rules_found"] = json!(rules.len());
        }
        let chunks = rt.block_on(db.verif_run_plan(&plan)).map_err(|e| e.to_string())?;
        Ok(canon_rows_of(&chunks))
    });
    match r {
        Ok(Ok(rows)) => {
            out["class"] = json!("ok");
            out["rows"] = json!(rows);
        }
        Ok(Err(e)) => {
            out["class"] = json!("err");
            out["msg"] = json!(e.chars().take(300).collect::<String>());
        }
        Err(p) => {
            out["class"] = json!("panic");
            out["msg"] = json!(p.chars().take(300).collect::<String>());
        }
    }
    out
}

fn run_query(rt: &tokio::runtime::Runtime, db: &Database, q: &Value, stages: &Value) -> Value {
    if q.get("plan").is_some() {
        return run_plan(rt, db, q);
    }
    let sql = q["sql"].as_str().unwrap_or("");
    let opt = q["opt"].as_str().unwrap_or("on");
    let want_plans = q["plans"].as_bool().unwrap_or(false);
    let mut out = json!({});
    let r = catch(|| -> Result<Vec<Vec<String>>, String> {
        if opt == "on" && !want_plans {
            let chunks = rt.block_on(db.run(sql)).map_err(|e| e.to_string())?;
            return Ok(chunks.last().map(|c| c.data_chunks().iter().flat_map(canon_rows).collect()).unwrap_or_default());
        }
        let plans = db.verif_bind(sql).map_err(|e| format!("bind: {e}"))?;
        let mut rows = vec![];
        for plan in plans {
            if is_set_or_pragma(&plan) {
                rt.block_on(db.run(sql)).map_err(|e| e.to_string())?;
                continue;
            }
            let plan2 = match opt {
                "off" => plan.clone(),
                "on" => {
                    let o = rt.block_on(db.verif_optimizer()).map_err(|e| e.to_string())?;
                    o.optimize(plan.clone())
                }
                "custom" => {
                    let o = rt.block_on(db.verif_optimizer()).map_err(|e| e.to_string())?;
                    let excl: HashSet<String> = q["exclude"].as_array().map(|a| a.iter().filter_map(|x| x.as_str().map(String::from)).collect()).unwrap_or_default();
                    custom_optimize(&o.verif_analysis(), plan.clone(), &excl, stages)?
                }
                _ => return Err(format!("bad opt {opt}")),
            };
            if want_plans {
                out["bound"] = json!(plan.to_string());
                out["optimized"] = json!(plan2.to_string());
            }
            let chunks = rt.block_on(db.verif_run_plan(&plan2)).map_err(|e| e.to_string())?;
            rows = canon_rows_of(&chunks);
        }
        Ok(rows)
    });
    match r {
        Ok(Ok(rows)) => {
            out["class"] = json!("ok");
            out["rows"] = json!(rows);
        }
        Ok(Err(e)) => {
            out["class"] = json!("err");
            out["msg"] = json!(e.chars().take(300).collect::<String>());
        }
        Err(p) => {
            out["class"] = json!("panic");
            out["msg"] = json!(p.chars().take(300).collect::<String>());
        }
    }
    out
}

fn main() {
    let args: Vec<String> = std::env::args().collect();
    if args.len() < 3 || args[1] != "sql" {
        eprintln!("usage: c01 sql <requests.jsonl>");
        std::process::exit(2);
    }
    let stages: Value = std::env::var("VERIF_STAGES").ok().and_then(|s| serde_json::from_str(&s).ok()).unwrap_or(json!([]));
    let rt = runtime();
    for line in read_lines(&args[2]) {
        let req: Value = serde_json::from_str(&line).expect("bad request json");
        let db = match req["engine"].as_str().unwrap_or("mem") {
            "disk" => rt.block_on(Database::new_on_disk(SecondaryStorageOptions::default_for_test())),
            _ => Database::new_in_memory(),
        };
        let mut setup_ok = true;
        let mut setup_msg = String::new();
        for s in req["setup"].as_array().cloned().unwrap_or_default() {
            match run_sql(&rt, &db, s.as_str().unwrap_or("")) {
                Outcome::Ok(_) => {}
                o => {
                    setup_ok = false;
                    setup_msg = format!("{}: {:?}", s, o).chars().take(300).collect();
                    break;
                }
            }
        }
        let mut results = vec![];
        if setup_ok {
            for q in req["queries"].as_array().cloned().unwrap_or_default() {
                results.push(run_query(&rt, &db, &q, &stages));
            }
        }
        let _ = catch(|| rt.block_on(db.shutdown()));
        println!("{}", json!({"id": req["id"], "setup_ok": setup_ok, "setup_msg": setup_msg, "results": results}));
    }
}
