//! Deterministic scheduler shared by the C08 / C09 / C10 harness binaries.
//!
//! The real storage engine / `Database` is driven on a current-thread tokio runtime.  Every
//! *thread of control* (an actor's own task, or an operator task the executor spawned on behalf
//! of a statement) blocks at the yield points (`risinglight::verif::point`) whose names are in
//! the gating set.  The scheduler releases exactly one gated thread at a time and lets the
//! runtime run until nothing can move any more (no runnable task, no blocking-pool work in
//! flight), then records the events seen and the observable state of the version manager.
//!
//! Output of one case is a *trace*: the list of steps, each with the events (segment ends) in
//! the order they happened plus the state afterwards.  The Lean driver replays the events on the
//! small-step model (`RlModel.Model.StoreConc`) and prints what the model observes.
#![allow(dead_code)]

use std::collections::{BTreeMap, HashMap, HashSet};
use std::path::{Path, PathBuf};
use std::sync::{Arc, Mutex};

use rlverif::risinglight;
use rlverif::risinglight::storage::{
    ScanOptions, SecondaryStorage, SecondaryStorageOptions, Storage, StorageColumnRef,
    StorageImpl, Table, Transaction, TxnIterator,
};
use rlverif::risinglight::verif::Action;
use rlverif::risinglight::Database;
use rlverif::*;

tokio::task_local! {
    pub static ACTOR: usize;
}

// ---------------------------------------------------------------------------------------------
// Commands
// ---------------------------------------------------------------------------------------------

#[derive(Clone, Debug, PartialEq, Eq)]
pub enum Cmd {
    Create(String),
    Drop(String),
    Insert(String, Vec<i32>),
    /// table, op (`lt` `eq` `ge` `all`), constant
    Delete(String, String, i32),
    Select(String),
    /// `select v from t where v = k` (a key predicate on a keyed table)
    SelEq(String, i32),
    /// `select v from t order by v`: the result is compared IN ORDER
    SelOrd(String),
    Count(String),
    /// storage-level reader: table, batch size
    Read(String, usize),
    Compact,
    Vacuum,
}

impl Cmd {
    pub fn desc(&self) -> String {
        match self {
            Cmd::Create(t) => format!("create:{t}"),
            Cmd::Drop(t) => format!("drop:{t}"),
            Cmd::Insert(t, vs) => format!(
                "ins:{t}:{}",
                vs.iter().map(|v| v.to_string()).collect::<Vec<_>>().join("+")
            ),
            Cmd::Delete(t, op, k) => format!("del:{t}:{op}:{k}"),
            Cmd::Select(t) => format!("sel:{t}"),
            Cmd::SelEq(t, k) => format!("seleq:{t}:{k}"),
            Cmd::SelOrd(t) => format!("selo:{t}"),
            Cmd::Count(t) => format!("cnt:{t}"),
            Cmd::Read(t, b) => format!("read:{t}:{b}"),
            Cmd::Compact => "compact".into(),
            Cmd::Vacuum => "vacuum".into(),
        }
    }
    pub fn parse(s: &str) -> Cmd {
        let p: Vec<&str> = s.split(':').collect();
        match p[0] {
            "create" => Cmd::Create(p[1].into()),
            "drop" => Cmd::Drop(p[1].into()),
            "ins" => Cmd::Insert(
                p[1].into(),
                p[2].split('+').filter(|x| !x.is_empty()).map(|x| x.parse().unwrap()).collect(),
            ),
            "del" => Cmd::Delete(p[1].into(), p[2].into(), p[3].parse().unwrap()),
            "sel" => Cmd::Select(p[1].into()),
            "seleq" => Cmd::SelEq(p[1].into(), p[2].parse().unwrap()),
            "selo" => Cmd::SelOrd(p[1].into()),
            "cnt" => Cmd::Count(p[1].into()),
            "read" => Cmd::Read(p[1].into(), p[2].parse().unwrap()),
            "compact" => Cmd::Compact,
            "vacuum" => Cmd::Vacuum,
            _ => panic!("bad command {s}"),
        }
    }
    pub fn sql(&self) -> Option<String> {
        Some(match self {
            // by convention tables named t50.. have `v` as PRIMARY KEY (sorted row-sets, merging
            // scans and compactions, key predicates pushed into the scan)
            Cmd::Create(t) => {
                if t[1..].parse::<u32>().map(|n| n >= 50).unwrap_or(false) {
                    format!("create table {t} (v int primary key)")
                } else {
                    format!("create table {t} (v int)")
                }
            }
            Cmd::Drop(t) => format!("drop table {t}"),
            Cmd::Insert(t, vs) => format!(
                "insert into {t} values {}",
                vs.iter().map(|v| format!("({v})")).collect::<Vec<_>>().join(",")
            ),
            Cmd::Delete(t, op, k) => match op.as_str() {
                "lt" => format!("delete from {t} where v < {k}"),
                "eq" => format!("delete from {t} where v = {k}"),
                "ge" => format!("delete from {t} where v >= {k}"),
                "bt" => format!("delete from {t} where v >= {k} and v <= {}", k + 2),
                _ => format!("delete from {t}"),
            },
            Cmd::Select(t) => format!("select v from {t}"),
            Cmd::SelEq(t, k) => format!("select v from {t} where v = {k}"),
            Cmd::SelOrd(t) => format!("select v from {t} order by v"),
            Cmd::Count(t) => format!("select count(*) from {t}"),
            _ => return None,
        })
    }
}

// ---------------------------------------------------------------------------------------------
// Cases
// ---------------------------------------------------------------------------------------------

#[derive(Clone, Debug)]
pub struct Case {
    pub id: String,
    /// names of the points at which threads are held
    pub gate: Vec<String>,
    pub setup: Vec<Cmd>,
    pub actors: Vec<Vec<Cmd>>,
    /// explicit choices (index into the sorted list of enabled threads, taken modulo)
    pub sched: Vec<usize>,
    /// seed of the fallback chooser used once `sched` is exhausted (0 = always the first)
    pub rng: u64,
    /// probability (percent) of staying with the actor released last, fallback chooser
    pub sticky: u64,
    /// directed prefix of the schedule: `(actor, point)` = keep releasing threads of `actor`
    /// until one of them waits at `point` (`end` = until it has nothing enabled)
    pub script: Vec<(usize, String)>,
    /// storage option `target_rowset_size` in bytes (0 = the 256 MB default): with a tiny value a
    /// compaction pass selects a strict SUBSET of a table's row-sets (an oversized row-set never
    /// fits the budget).  Row-sets with >= `BIG_ROWS` rows are the oversized ones.
    pub target: usize,
}

/// see `Case::target`
pub const BIG_ROWS: usize = 100;

pub const ALL_GATES: &[&str] = &[
    "cmd.begin",
    "db.bound",
    "txn.lock.begin",
    "txn.pinned",
    "txn.locked",
    "vm.commit.begin",
    "vm.commitA",
    "vm.append",
    "vm.committed",
    "cp.pass.begin",
    "cp.table",
    "cp.locked",
    "cp.pass.end",
    "vac.find",
    "vac.unlinked",
    "ddl.drop.applied",
    "ddl.create.begin",
    "ddl.create.applied",
    "rd.open",
    "rd.batch",
    "scan.batch",
];

impl Case {
    pub fn to_sexp(&self) -> String {
        let cmds = |v: &Vec<Cmd>| v.iter().map(|c| c.desc()).collect::<Vec<_>>().join(" ");
        format!(
            "(case {} (gate {}) (setup {}) (actors {}) (sched {}) (rng {}) (sticky {}) (script {}) (target {}))",
            self.id,
            self.gate.join(" "),
            cmds(&self.setup),
            self.actors.iter().map(|a| format!("({})", cmds(a))).collect::<Vec<_>>().join(" "),
            self.sched.iter().map(|c| c.to_string()).collect::<Vec<_>>().join(" "),
            self.rng,
            self.sticky,
            self.script.iter().map(|(a, p)| format!("{a}:{p}")).collect::<Vec<_>>().join(" "),
            self.target
        )
    }
    pub fn parse(line: &str) -> Case {
        let s = Sexp::parse(line).unwrap_or_else(|e| panic!("bad case line: {e}: {line}"));
        let l = s.as_list().unwrap();
        assert_eq!(l[0].as_atom(), Some("case"));
        let mut c = Case {
            id: l[1].as_atom().unwrap().to_string(),
            gate: vec![],
            setup: vec![],
            actors: vec![],
            sched: vec![],
            rng: 0,
            sticky: 0,
            script: vec![],
            target: 0,
        };
        for f in &l[2..] {
            let f = f.as_list().unwrap();
            let atoms = || f[1..].iter().map(|x| x.as_atom().unwrap().to_string());
            match f[0].as_atom().unwrap() {
                "gate" => c.gate = atoms().collect(),
                "setup" => c.setup = atoms().map(|a| Cmd::parse(&a)).collect(),
                "actors" => {
                    c.actors = f[1..]
                        .iter()
                        .map(|a| {
                            a.as_list()
                                .unwrap()
                                .iter()
                                .map(|x| Cmd::parse(x.as_atom().unwrap()))
                                .collect()
                        })
                        .collect()
                }
                "sched" => c.sched = atoms().map(|a| a.parse().unwrap()).collect(),
                "rng" => c.rng = atoms().next().unwrap().parse().unwrap(),
                "sticky" => c.sticky = atoms().next().unwrap().parse().unwrap(),
                "target" => c.target = atoms().next().unwrap().parse().unwrap(),
                "script" => {
                    c.script = atoms()
                        .map(|a| {
                            let (x, y) = a.split_once(':').unwrap();
                            (x.parse().unwrap(), y.to_string())
                        })
                        .collect()
                }
                other => panic!("bad case field {other}"),
            }
        }
        c
    }
}

// ---------------------------------------------------------------------------------------------
// Scheduler state
// ---------------------------------------------------------------------------------------------

#[derive(Clone, Debug)]
pub struct Ev {
    pub actor: usize,
    pub th: usize,
    pub name: String,
    pub detail: String,
}

struct Thread {
    actor: usize,
    /// index of the thread within its actor (0 = the actor's own task)
    idx: usize,
    gate: Option<(String, String, tokio::sync::oneshot::Sender<()>)>,
}

#[derive(Default)]
struct State {
    active: bool,
    /// hooks pass through and record nothing (oracle reads)
    muted: bool,
    gating: HashSet<String>,
    threads: Vec<Thread>,
    by_task: HashMap<tokio::task::Id, usize>,
    per_actor_threads: HashMap<usize, usize>,
    main_thread: HashMap<usize, usize>,
    current_actor: usize,
    events: Vec<Ev>,
    progress: u64,
    /// actors currently inside a storage-level reader command (their txn.pinned is gated)
    reader_mode: HashSet<usize>,
    /// manifest lock holder (thread index), tracked from the events
    manifest_holder: Option<usize>,
    /// table locks: table id -> thread index
    table_locks: HashMap<String, usize>,
    /// holder of the CREATE TABLE lock
    ddl_holder: Option<usize>,
    actors_done: HashSet<usize>,
    n_actors_total: usize,
}

static STATE: Mutex<Option<State>> = Mutex::new(None);

fn with_state<T>(f: impl FnOnce(&mut State) -> T) -> Option<T> {
    let mut g = STATE.lock().unwrap_or_else(|e| e.into_inner());
    g.as_mut().map(f)
}

fn sanitize(s: &str) -> String {
    let t: String = s
        .chars()
        .map(|c| if c.is_whitespace() || c == '(' || c == ')' || c == '\'' { '_' } else { c })
        .collect();
    if t.is_empty() { "-".into() } else { t }
}

/// Resolves the thread of the calling task (registering a new one when needed).  Tasks that
/// carry the ACTOR task-local (the actor's own task and the per-command tasks it spawns) are
/// thread 0 of that actor; any other task (operator tasks spawned by the executor) is a new
/// thread of the actor that is currently released.
fn thread_of(st: &mut State) -> usize {
    let named = ACTOR.try_with(|a| *a).ok();
    if let Some(a) = named {
        if let Some(t) = st.main_thread.get(&a) {
            return *t;
        }
        st.threads.push(Thread { actor: a, idx: 0, gate: None });
        let t = st.threads.len() - 1;
        st.main_thread.insert(a, t);
        st.per_actor_threads.entry(a).or_insert(1);
        return t;
    }
    let tid = tokio::task::try_id();
    if let Some(tid) = tid {
        if let Some(t) = st.by_task.get(&tid) {
            return *t;
        }
    }
    let actor = st.current_actor;
    let n = st.per_actor_threads.entry(actor).or_insert(1);
    let idx = *n;
    *n += 1;
    st.threads.push(Thread { actor, idx, gate: None });
    let t = st.threads.len() - 1;
    if let Some(tid) = tid {
        st.by_task.insert(tid, t);
    }
    t
}

fn track_locks(st: &mut State, t: usize, name: &str, detail: &str) {
    // a commit that fails (e.g. `commit_changes` refusing a changeset for a dropped table) never
    // reaches `vm.committed`: any other event of the holder shows the manifest lock is free again
    if st.manifest_holder == Some(t) && !matches!(name, "vm.commitA" | "vm.append" | "vm.commit.begin") {
        st.manifest_holder = None;
    }
    match name {
        "vm.committed" => {
            if st.manifest_holder == Some(t) {
                st.manifest_holder = None;
            }
        }
        "txn.locked" | "cp.locked" => {
            st.table_locks.insert(detail.to_string(), t);
        }
        "vm.commit.begin" => {
            // DROP TABLE took the table's deletion lock before it pinned and built its changeset
            if let Some(rest) = detail.strip_prefix("drop:") {
                let tb = rest.split(',').next().unwrap_or("").to_string();
                st.table_locks.insert(tb, t);
            }
        }
        "txn.pinned" => {
            // an update txn holds the table's deletion lock by the time it has pinned
            let p: Vec<&str> = detail.split(',').collect();
            if p[0] == "upd" {
                st.table_locks.insert(p[1].to_string(), t);
            }
        }
        "cp.table" | "cp.pass.end" => {
            st.table_locks.retain(|_, h| *h != t);
        }
        "cmd.done" => {
            // everything the actor's threads held is released by now
            let actor = st.threads[t].actor;
            let ths: Vec<usize> =
                (0..st.threads.len()).filter(|i| st.threads[*i].actor == actor).collect();
            st.table_locks.retain(|_, h| !ths.contains(h));
            if let Some(h) = st.ddl_holder {
                if ths.contains(&h) {
                    st.ddl_holder = None;
                }
            }
            if let Some(h) = st.manifest_holder {
                if ths.contains(&h) {
                    st.manifest_holder = None;
                }
            }
        }
        _ => {}
    }
}

fn sync_hook(name: &str, detail: &str) -> Action {
    if name != "vm.pin" && name != "vm.unpin" {
        return Action::Continue;
    }
    with_state(|st| {
        if !st.active || st.muted {
            return;
        }
        let t = thread_of(st);
        let (actor, th) = (st.threads[t].actor, st.threads[t].idx);
        st.events.push(Ev { actor, th, name: name.into(), detail: sanitize(detail) });
        st.progress += 1;
        if st.manifest_holder == Some(t) {
            // (see track_locks) a pin/unpin of the holder: its commit is over
            st.manifest_holder = None;
        }
    });
    Action::Continue
}

async fn async_hook(name: String, detail: String) -> Action {
    let rx = with_state(|st| {
        if !st.active || st.muted {
            return None;
        }
        let t = thread_of(st);
        let (actor, th) = (st.threads[t].actor, st.threads[t].idx);
        let detail = sanitize(&detail);
        st.events.push(Ev { actor, th, name: name.clone(), detail: detail.clone() });
        st.progress += 1;
        track_locks(st, t, &name, &detail);
        let mut gated = st.gating.contains(&name);
        if name == "txn.pinned" && th == 0 && !st.reader_mode.contains(&actor) {
            // the statistics read of `Database::run` on the session's own task: pin and
            // unpin happen without an await in between
            gated = false;
        }
        if !gated {
            return None;
        }
        let (tx, rx) = tokio::sync::oneshot::channel();
        st.threads[t].gate = Some((name.clone(), detail, tx));
        Some(rx)
    })
    .flatten();
    if let Some(rx) = rx {
        let _ = rx.await;
    }
    Action::Continue
}

/// A point of the harness itself (same machinery as the points inside RisingLight).
pub async fn hpoint(name: &str, detail: &str) {
    risinglight::verif::point(name, detail).await;
}

fn panic_hook(info: &std::panic::PanicHookInfo<'_>) {
    let msg = if let Some(s) = info.payload().downcast_ref::<&str>() {
        s.to_string()
    } else if let Some(s) = info.payload().downcast_ref::<String>() {
        s.clone()
    } else {
        "panic".to_string()
    };
    let loc = info.location().map(|l| format!("{}:{}", l.file(), l.line())).unwrap_or_default();
    if std::env::var("VERIF_SHOW_PANICS").is_ok() {
        eprintln!("panic: {msg} at {loc}");
    }
    if let Ok(mut g) = STATE.try_lock() {
        if let Some(st) = g.as_mut() {
            if st.active {
                let t = thread_of(st);
                let (actor, th) = (st.threads[t].actor, st.threads[t].idx);
                // last two path components, e.g. `executor/mod.rs:133`
                let parts: Vec<&str> = loc.rsplit('/').take(2).collect();
                let file = parts.into_iter().rev().collect::<Vec<_>>().join("/");
                let short: String = msg.chars().take(60).collect();
                st.events.push(Ev {
                    actor,
                    th,
                    name: "panic".into(),
                    detail: sanitize(&format!("{file}:{short}")),
                });
                st.progress += 1;
            }
        }
    }
}

pub fn install_hooks() {
    std::panic::set_hook(Box::new(panic_hook));
    risinglight::verif::install_sync(Arc::new(sync_hook));
    risinglight::verif::install_async(Arc::new(|n, d| Box::pin(async_hook(n, d))));
}

// ---------------------------------------------------------------------------------------------
// Running commands against the real implementation
// ---------------------------------------------------------------------------------------------

pub fn storage_of(db: &Database) -> Arc<SecondaryStorage> {
    match db.verif_storage() {
        StorageImpl::SecondaryStorage(s) => s,
        _ => panic!("not a disk database"),
    }
}

pub fn options(path: &Path) -> SecondaryStorageOptions {
    options_with(path, 0)
}

pub fn options_with(path: &Path, target: usize) -> SecondaryStorageOptions {
    let mut o = SecondaryStorageOptions::default_for_cli();
    o.path = path.to_path_buf();
    o.cache_size = 1024;
    if target > 0 {
        o.target_rowset_size = target;
    }
    o
}

fn rows_text(mut v: Vec<i64>, sorted: bool) -> String {
    if sorted {
        v.sort();
    }
    if v.is_empty() {
        "rows:".into()
    } else {
        format!("rows:{}", v.iter().map(|x| x.to_string()).collect::<Vec<_>>().join("+"))
    }
}

fn value_i64(s: &str) -> i64 {
    // canonical value text -> integer (null -> i64::MIN marker)
    match s.split_once(':') {
        Some((_, n)) => n.parse().unwrap_or(i64::MIN + 1),
        None => i64::MIN,
    }
}

fn err_class(e: &str) -> String {
    let l = e.to_lowercase();
    let c = if l.contains("not found") {
        "notfound"
    } else if l.contains("duplicate") || l.contains("already exists") || l.contains("exists") {
        "duplicate"
    } else if l.contains("bind") {
        "bind"
    } else if l.contains("io") || l.contains("no such file") {
        "io"
    } else {
        "other"
    };
    format!("err:{c}")
}

/// Runs one SQL statement, returns the canonical result text.
pub async fn run_sql_text(db: &Database, sql: &str) -> String {
    run_sql_text_ord(db, sql, false).await
}

/// `keep_order`: the rows are reported in the order the statement returned them
pub async fn run_sql_text_ord(db: &Database, sql: &str, keep_order: bool) -> String {
    match db.run(sql).await {
        Ok(chunks) => {
            let mut vals = vec![];
            if let Some(c) = chunks.last() {
                for dc in c.data_chunks() {
                    for r in canon_rows(dc) {
                        vals.push(value_i64(&r[0]));
                    }
                }
            }
            rows_text(vals, !keep_order)
        }
        Err(e) => {
            // the Display of the outer error does not include its cause: walk the chain
            let mut msg = e.to_string();
            let mut cur: Option<&dyn std::error::Error> = std::error::Error::source(&e);
            while let Some(c) = cur {
                msg.push_str(": ");
                msg.push_str(&c.to_string());
                cur = c.source();
            }
            err_class(&msg)
        }
    }
}

async fn run_reader(db: &Database, actor: usize, table: &str, batch: usize) -> String {
    let catalog = db.verif_catalog();
    let Some(tid) = catalog.get_table_id_by_name("postgres", table) else {
        return "err:notfound".into();
    };
    let storage = storage_of(db);
    let t = match storage.get_table(tid) {
        Ok(t) => t,
        Err(_) => return "err:notfound".into(),
    };
    // model-free oracle: an ungated full scan in the same atomic segment as the pin below
    with_state(|st| st.muted = true);
    let oracle: Result<Vec<i64>, String> = async {
        let txn = t.read().await.map_err(|e| e.to_string())?;
        let mut it = txn
            .scan(&[StorageColumnRef::Idx(0)], ScanOptions::default())
            .await
            .map_err(|e| e.to_string())?;
        let mut all = vec![];
        while let Some(chunk) = it.next_batch(None).await.map_err(|e| e.to_string())? {
            all.extend(canon_rows(&chunk).iter().map(|r| value_i64(&r[0])));
        }
        Ok(all)
    }
    .await;
    with_state(|st| st.muted = false);
    hpoint(
        "rd.oracle",
        &match oracle {
            Ok(v) => rows_text(v, true),
            Err(e) => err_class(&e),
        },
    )
    .await;
    with_state(|st| {
        st.reader_mode.insert(actor);
    });
    let txn = match t.read().await {
        Ok(x) => x,
        Err(e) => return err_class(&e.to_string()),
    };
    with_state(|st| {
        st.reader_mode.remove(&actor);
    });
    let mut all = vec![];
    let res: Result<(), String> = async {
        let mut it = txn
            .scan(&[StorageColumnRef::Idx(0)], ScanOptions::default())
            .await
            .map_err(|e| e.to_string())?;
        hpoint("rd.open", "").await;
        loop {
            match it.next_batch(Some(batch)).await.map_err(|e| e.to_string())? {
                Some(chunk) => {
                    let vals: Vec<i64> =
                        canon_rows(&chunk).iter().map(|r| value_i64(&r[0])).collect();
                    all.extend(vals.iter().cloned());
                    hpoint("rd.batch", &vals.len().to_string()).await;
                }
                None => break,
            }
        }
        drop(it);
        Ok(())
    }
    .await;
    drop(txn);
    match res {
        Ok(()) => rows_text(all, true),
        Err(e) => err_class(&e),
    }
}

async fn run_cmd(db: &Arc<Database>, actor: usize, cmd: &Cmd) -> String {
    match cmd {
        Cmd::Read(t, b) => run_reader(db, actor, t, *b).await,
        Cmd::Compact => match storage_of(db).verif_compact_once().await {
            Ok(()) => "ok".into(),
            Err(e) => err_class(&e.to_string()),
        },
        Cmd::Vacuum => match storage_of(db).verif_vacuum_once().await {
            Ok(()) => "ok".into(),
            Err(e) => err_class(&e.to_string()),
        },
        c @ Cmd::SelOrd(_) => run_sql_text_ord(db, &c.sql().unwrap(), true).await,
        c => run_sql_text(db, &c.sql().unwrap()).await,
    }
}

async fn actor_main(db: Arc<Database>, actor: usize, cmds: Vec<Cmd>) {
    for cmd in &cmds {
        hpoint("cmd.begin", &cmd.desc()).await;
        // each command runs in its own task so that a panic inside it is an outcome, not the
        // end of the actor
        let db2 = db.clone();
        let c2 = cmd.clone();
        let r = tokio::spawn(ACTOR.scope(actor, async move { run_cmd(&db2, actor, &c2).await }))
            .await;
        let text = match r {
            Ok(t) => t,
            Err(e) if e.is_panic() => "panic".to_string(),
            Err(_) => "cancelled".to_string(),
        };
        hpoint("cmd.done", &text).await;
    }
    with_state(|st| {
        st.actors_done.insert(actor);
        st.progress += 1;
    });
}

// ---------------------------------------------------------------------------------------------
// The scheduler loop
// ---------------------------------------------------------------------------------------------

async fn settle() {
    let m = tokio::runtime::Handle::current().metrics();
    let mut idle = 0;
    let mut last = with_state(|s| s.progress).unwrap_or(0);
    let mut spins = 0u64;
    loop {
        tokio::task::yield_now().await;
        spins += 1;
        let busy = m.num_blocking_threads() > m.num_idle_blocking_threads()
            || m.blocking_queue_depth() > 0
            || m.worker_local_queue_depth(0) > 0
            || m.injection_queue_depth() > 0;
        let p = with_state(|s| s.progress).unwrap_or(0);
        if !busy && p == last {
            idle += 1;
        } else {
            idle = 0;
        }
        last = p;
        if idle >= 3 {
            break;
        }
        if spins % 4096 == 0 {
            // be nice to the blocking pool when it is the one we are waiting for
            std::thread::sleep(std::time::Duration::from_micros(50));
        }
    }
}

pub struct StepRec {
    pub pick: Option<(usize, usize)>,
    pub n_enabled: usize,
    pub choice: usize,
    pub events: Vec<Ev>,
    pub obs: String,
    pub disk: String,
    /// identities `actor.thread@gate` of the threads that were enabled when the pick was made
    pub enabled: Vec<String>,
}

pub struct Outcome2 {
    pub steps: Vec<StepRec>,
    pub deadlock: Option<String>,
    pub finals: Vec<(String, String)>,
    pub final_state: String,
    pub reopen: Vec<(String, String)>,
    pub reopen_status: String,
    pub checks: Vec<String>,
}

/// Canonical observable state of the version manager (same format as the Lean driver's
/// `renderObs`): delete vectors by deleted positions, empty pending entries dropped.
pub fn canon_obs(storage: &SecondaryStorage) -> String {
    let raw = storage.verif_state();
    let mut f: BTreeMap<String, String> = BTreeMap::new();
    for part in raw.split(';') {
        if let Some((k, v)) = part.split_once('=') {
            f.insert(k.to_string(), v.to_string());
        }
    }
    let (_, _, dvs) = storage.verif_snapshot(None);
    let mut by: BTreeMap<(u32, u32), Vec<u32>> = BTreeMap::new();
    for (t, r, d) in dvs {
        let rows = storage.verif_dv_rows(t, d).unwrap_or_default();
        by.entry((t, r)).or_default().extend(rows);
    }
    let dvs = by
        .iter_mut()
        .map(|((t, r), v)| {
            v.sort();
            v.dedup();
            format!("{t}:{r}:{}", v.iter().map(|x| x.to_string()).collect::<Vec<_>>().join("+"))
        })
        .collect::<Vec<_>>()
        .join(",");
    let pending = f["pending"]
        .split(',')
        .filter(|e| !e.is_empty() && !e.ends_with(':'))
        .collect::<Vec<_>>()
        .join(",");
    format!(
        "epoch={};pins={};snap={};dvs={};pending={};pool={}",
        f["epoch"], f["pins"], f["snap"], dvs, pending, f["pool"]
    )
}

fn disk_listing(path: &Path) -> String {
    let mut v = vec![];
    if let Ok(rd) = std::fs::read_dir(path) {
        for e in rd.flatten() {
            if e.path().is_dir() {
                let n = e.file_name().to_string_lossy().to_string();
                if n != "dv" {
                    v.push(n);
                }
            }
        }
    }
    v.sort_by_key(|n| {
        let p: Vec<u64> = n.split('_').map(|x| x.parse().unwrap_or(0)).collect();
        (p.first().cloned().unwrap_or(0), p.get(1).cloned().unwrap_or(0))
    });
    v.join(",")
}

fn enabled_threads(st: &State) -> Vec<usize> {
    let mut v = vec![];
    for (i, t) in st.threads.iter().enumerate() {
        if let Some((name, detail, _)) = &t.gate {
            let ok = match name.as_str() {
                "vm.commit.begin" => st.manifest_holder.is_none(),
                "ddl.create.begin" => st.ddl_holder.is_none(),
                // A thread about to await a TABLE lock may be released even when the harness
                // believes the lock is held: if the lock works the thread simply blocks (it is
                // not gated any more and continues, in a later step, when the holder lets go);
                // if it does not work the thread runs inside the holder's window — which is the
                // interleaving the mutual exclusion of compaction / DELETE / DROP has to forbid
                // and the model and the oracles must see.  (The harness must not ASSUME the
                // lock: with the rule `enabled iff lock free` a broken lock was never exercised.)
                "txn.lock.begin" | "ddl.drop.applied" => true,
                _ => true,
            };
            if ok {
                v.push(i);
            }
        }
    }
    v.sort_by_key(|i| (st.threads[*i].actor, st.threads[*i].idx));
    v
}

/// Model-free invariant of C08 checked on the implementation at every `vac.unlinked` event:
/// no pinned epoch's snapshot contains the row-set that was just unlinked.
fn check_unlink(storage: &SecondaryStorage, evs: &[Ev], out: &mut Vec<String>) {
    for e in evs {
        if e.name == "vac.unlinked" {
            let p: Vec<u32> = e.detail.split('_').map(|x| x.parse().unwrap_or(u32::MAX)).collect();
            for (epoch, _) in storage.verif_pins() {
                let (_, rs, _) = storage.verif_snapshot(Some(epoch));
                if rs.contains(&(p[0], p[1])) {
                    out.push(format!("unlink-of-pinned:{}@{}", e.detail, epoch));
                }
            }
        }
    }
}

pub fn run_case(case: &Case, dir: &Path) -> Outcome2 {
    let _ = std::fs::remove_dir_all(dir);
    std::fs::create_dir_all(dir.parent().unwrap()).unwrap();
    install_hooks();
    let rt = runtime();
    let out = rt.block_on(run_case_async(case, dir));
    // make sure no gated task survives into the next case
    *STATE.lock().unwrap_or_else(|e| e.into_inner()) = None;
    drop(rt);
    out
}

async fn run_case_async(case: &Case, dir: &Path) -> Outcome2 {
    *STATE.lock().unwrap_or_else(|e| e.into_inner()) = None;
    let db = Arc::new(
        Database::verif_new_on_disk_nobg(options_with(dir, case.target))
            .await
            .expect("open fresh database"),
    );
    let storage = storage_of(&db);
    let mut st = State::default();
    st.gating = case.gate.iter().cloned().collect();
    st.active = true;
    st.n_actors_total = case.actors.len() + 1;
    *STATE.lock().unwrap() = Some(st);

    let mut out = Outcome2 {
        steps: vec![],
        deadlock: None,
        finals: vec![],
        final_state: String::new(),
        reopen: vec![],
        reopen_status: String::new(),
        checks: vec![],
    };
    if case.target > 0 {
        // tells the model which row-sets the size-based selection of the compactor skips
        with_state(|s| {
            s.events.push(Ev { actor: 0, th: 0, name: "cfg.big".into(), detail: BIG_ROWS.to_string() })
        });
    }
    let mut rng = Rng::new(case.rng);
    let mut sched_pos = 0usize;
    let mut last_actor = usize::MAX;
    let mut script_pos = 0usize;

    // phase 1: the setup actor (actor 0) alone; phase 2: the concurrent actors (1..)
    for phase in 0..2 {
        let mut handles = vec![];
        let actors: Vec<(usize, Vec<Cmd>)> = if phase == 0 {
            vec![(0, case.setup.clone())]
        } else {
            case.actors.iter().cloned().enumerate().map(|(i, c)| (i + 1, c)).collect()
        };
        let ids: Vec<usize> = actors.iter().map(|a| a.0).collect();
        for (id, cmds) in actors {
            with_state(|s| s.current_actor = id);
            handles.push(tokio::spawn(ACTOR.scope(id, actor_main(db.clone(), id, cmds))));
            settle().await;
        }
        // the initial events (each actor reaching its first gate) form step 0 of the phase
        let evs = with_state(|s| std::mem::take(&mut s.events)).unwrap();
        check_unlink(&storage, &evs, &mut out.checks);
        out.steps.push(StepRec {
            pick: None,
            n_enabled: 0,
            choice: 0,
            events: evs,
            obs: canon_obs(&storage),
            disk: disk_listing(dir),
            enabled: vec![],
        });
        let mut guard = 0;
        loop {
            guard += 1;
            if guard > 5000 {
                out.deadlock = Some("step-limit".into());
                break;
            }
            let (enabled, all_done, waiting) = with_state(|s| {
                let en = enabled_threads(s);
                let done = ids.iter().all(|i| s.actors_done.contains(i));
                let waiting: Vec<String> = s
                    .threads
                    .iter()
                    .filter(|t| t.gate.is_some())
                    .map(|t| {
                        let g = t.gate.as_ref().unwrap();
                        format!("{}.{}@{}:{}", t.actor, t.idx, g.0, g.1)
                    })
                    .collect();
                (en, done, waiting)
            })
            .unwrap();
            if enabled.is_empty() {
                if !all_done {
                    out.deadlock = Some(format!("stuck:{}", waiting.join(";")));
                }
                break;
            }
            let n = enabled.len();
            // directed prefix
            let mut scripted: Option<usize> = None;
            if phase == 1 {
                while script_pos < case.script.len() {
                    let (sa, sp) = &case.script[script_pos];
                    let cand = with_state(|s| {
                        let at_target = s.threads.iter().any(|t| {
                            t.actor == *sa && t.gate.as_ref().map(|g| &g.0 == sp).unwrap_or(false)
                        });
                        if at_target {
                            return None;
                        }
                        (0..n).find(|i| s.threads[enabled[*i]].actor == *sa)
                    })
                    .unwrap();
                    match cand {
                        Some(c) => {
                            scripted = Some(c);
                            break;
                        }
                        None => script_pos += 1,
                    }
                }
            }
            let choice = if phase == 0 {
                0
            } else if let Some(c) = scripted {
                c
            } else if sched_pos < case.sched.len() {
                let c = case.sched[sched_pos] % n;
                sched_pos += 1;
                c
            } else if case.rng == 0 {
                0
            } else {
                let same: Vec<usize> = with_state(|s| {
                    (0..n).filter(|i| s.threads[enabled[*i]].actor == last_actor).collect()
                })
                .unwrap();
                if !same.is_empty() && rng.below(100) < case.sticky {
                    same[rng.below(same.len() as u64) as usize]
                } else {
                    rng.below(n as u64) as usize
                }
            };
            let t = enabled[choice];
            let enabled_ids: Vec<String> = with_state(|s| {
                enabled
                    .iter()
                    .map(|i| {
                        let th = &s.threads[*i];
                        let g = th.gate.as_ref().unwrap();
                        format!("{}.{}@{}", th.actor, th.idx, g.0)
                    })
                    .collect()
            })
            .unwrap();
            let pick = with_state(|s| {
                let th = &mut s.threads[t];
                let (name, _, tx) = th.gate.take().unwrap();
                let pick = (th.actor, th.idx);
                s.current_actor = th.actor;
                if name == "vm.commit.begin" {
                    s.manifest_holder = Some(t);
                }
                if name == "ddl.create.begin" {
                    s.ddl_holder = Some(t);
                }
                let _ = tx.send(());
                pick
            })
            .unwrap();
            last_actor = pick.0;
            settle().await;
            let evs = with_state(|s| std::mem::take(&mut s.events)).unwrap();
            check_unlink(&storage, &evs, &mut out.checks);
            out.steps.push(StepRec {
                pick: Some(pick),
                n_enabled: n,
                choice,
                events: evs,
                obs: canon_obs(&storage),
                disk: disk_listing(dir),
                enabled: enabled_ids,
            });
        }
        if out.deadlock.is_some() {
            for h in &handles {
                h.abort();
            }
            break;
        }
        for h in handles {
            let _ = h.await;
        }
    }

    // final observations, scheduler off
    with_state(|s| s.active = false);
    out.final_state = canon_obs(&storage);
    if out.deadlock.is_none() {
        let names = table_names(&db);
        for t in &names {
            let r = tokio::spawn({
                let db = db.clone();
                let sql = format!("select v from {t}");
                async move { run_sql_text(&db, &sql).await }
            })
            .await;
            out.finals.push((t.clone(), r.unwrap_or_else(|_| "panic".into())));
        }
    }
    drop(storage);
    drop(db);
    // reopen
    if out.deadlock.is_none() {
        let dir2 = dir.to_path_buf();
        let target = case.target;
        let r = tokio::spawn(async move {
            let db = match Database::verif_new_on_disk_nobg(options_with(&dir2, target)).await {
                Ok(db) => Arc::new(db),
                Err(e) => return (err_class(&e.to_string()), vec![]),
            };
            let mut v = vec![];
            for t in table_names(&db) {
                let r = run_sql_text(&db, &format!("select v from {t}")).await;
                v.push((t, r));
            }
            ("ok".to_string(), v)
        })
        .await;
        match r {
            Ok((s, v)) => {
                out.reopen_status = s;
                out.reopen = v;
            }
            Err(_) => out.reopen_status = "panic".into(),
        }
    }
    out
}

pub fn table_names(db: &Database) -> Vec<String> {
    let catalog = db.verif_catalog();
    let mut v = vec![];
    for s in catalog.all_schemas().values() {
        if s.name() == "pg_catalog" {
            continue;
        }
        for t in s.all_tables().values() {
            v.push(t.name().to_string());
        }
    }
    v.sort();
    v
}

// ---------------------------------------------------------------------------------------------
// Trace rendering
// ---------------------------------------------------------------------------------------------

pub fn render_trace(case: &Case, o: &Outcome2) -> String {
    let mut s = format!("(trace {} (steps", case.id);
    for st in &o.steps {
        s.push_str(" (step");
        match st.pick {
            Some((a, t)) => s.push_str(&format!(" (pick {a} {t} {} {})", st.choice, st.n_enabled)),
            None => s.push_str(" (pick - - 0 0)"),
        }
        for e in &st.events {
            s.push_str(&format!(" (ev {} {} {} {})", e.actor, e.th, e.name, e.detail));
        }
        if !st.enabled.is_empty() {
            s.push_str(&format!(" (en {})", st.enabled.join(" ")));
        }
        s.push_str(&format!(" (obs {}) (disk {}))", sanitize(&st.obs), sanitize(&st.disk)));
    }
    s.push(')');
    s.push_str(&format!(
        " (deadlock {})",
        o.deadlock.as_ref().map(|d| sanitize(d)).unwrap_or_else(|| "none".into())
    ));
    s.push_str(" (final");
    for (t, r) in &o.finals {
        s.push_str(&format!(" ({t} {r})"));
    }
    s.push_str(&format!(") (reopen {}", if o.reopen_status.is_empty() { "-" } else { &o.reopen_status }));
    for (t, r) in &o.reopen {
        s.push_str(&format!(" ({t} {r})"));
    }
    s.push_str(&format!(") (checks {}))", o.checks.join(" ")));
    s
}

pub fn work_dir(tag: &str) -> PathBuf {
    let base = std::env::var("VERIF_WORK").unwrap_or_else(|_| "/verif/.work/sched-scratch".into());
    PathBuf::from(base).join(format!("{tag}-{}", std::process::id()))
}

pub fn counts_by<T: std::fmt::Display>(items: impl Iterator<Item = T>) -> BTreeMap<String, usize> {
    let mut m = BTreeMap::new();
    for i in items {
        *m.entry(i.to_string()).or_insert(0) += 1;
    }
    m
}
