//! Template harness binary.  `demo gen <n> <out>` writes requests; `demo run <requests>` answers
//! them with the real implementation (one line per request, same order).
use rlverif::risinglight::types::DataValue;
use rlverif::*;

fn gen_val(r: &mut Rng) -> DataValue {
    match r.below(6) {
        0 => DataValue::Null,
        1 => DataValue::Bool(r.chance(1, 2)),
        2 => DataValue::Int32(*r.pick(&[i32::MIN, -1, 0, 1, 7, i32::MAX])),
        3 => DataValue::Int64(r.range(-3, 3)),
        4 => DataValue::String((*r.pick(&["", "a", "ab", "b", "é"])).into()),
        _ => DataValue::Int16(r.range(-2, 2) as i16),
    }
}

fn parse_val(t: &str) -> DataValue {
    if t == "null" { return DataValue::Null; }
    let (tag, rest) = t.split_once(':').unwrap();
    match tag {
        "b" => DataValue::Bool(rest == "true"),
        "i16" => DataValue::Int16(rest.parse().unwrap()),
        "i32" => DataValue::Int32(rest.parse().unwrap()),
        "i64" => DataValue::Int64(rest.parse().unwrap()),
        "s" => DataValue::String(String::from_utf8(unhex(rest).unwrap()).unwrap().into()),
        _ => panic!("bad value {t}"),
    }
}

fn main() {
    let args: Vec<String> = std::env::args().collect();
    match args[1].as_str() {
        "gen" => {
            let n: usize = args[2].parse().unwrap();
            let mut r = Rng::from_env();
            let mut out = String::new();
            for _ in 0..n {
                out += &format!("cmp {} {}\n", canon_value(&gen_val(&mut r)), canon_value(&gen_val(&mut r)));
            }
            std::fs::write(&args[3], out).unwrap();
        }
        "run" => {
            for line in read_lines(&args[2]) {
                let t: Vec<&str> = line.split(' ').collect();
                let (a, b) = (parse_val(t[1]), parse_val(t[2]));
                let o = catch(|| a.cmp(&b));
                println!("{}", match o { Ok(std::cmp::Ordering::Less) => "lt", Ok(std::cmp::Ordering::Equal) => "eq", Ok(_) => "gt", Err(_) => "panic" });
            }
        }
        _ => panic!("usage"),
    }
}
