//! C06 harness: column encodings round-trip.
//!   c06 gen <n_arrays> <out>   writes requests (one per line, seeded by VERIF_SEED)
//!   c06 run <requests>         answers them with the REAL column builders / column iterator
//!
//! request : enc <ty> <nullable 0|1> <plain|rle|dict> <char_width|-> <block> <crc 0|1> <start>
//!               <nvals> v.. <nops> op..
//!   ty  : bool i16 i32 i64 f64 date str blob
//!   v   : canonical value text (rlverif::canon_value)
//!   op  : n:<k> next_batch(Some k) | n:- next_batch(None) | nh:<k> next_batch(Some(min(k,hint)))
//!         (the RowSetIterator discipline) | s:<c> skip(c) | sh:<c> skip(min(c,hint)) | h fetch_hint
//!         | r fetch_current_row_id
//! answer  : B <hex of .col bytes|-> <first,count,offset,length;..|-> R out..   (or `Bpanic`)
//!   out : b:<row_id>:<v,v,..> | none | h:<hint>:<0|1> | r:<row_id> | k:<rows skipped by sh> | err | panic (stops)
use rlverif::risinglight::array::{ArrayBuilderImpl, ArrayImpl};
use rlverif::risinglight::storage::secondary_verif as hk;
use rlverif::risinglight::types::{DataType, DataValue, Date, Interval, Timestamp, TimestampTz};
use rlverif::*;

fn dtype(ty: &str) -> DataType {
    match ty {
        "bool" => DataType::Bool,
        "i16" => DataType::Int16,
        "i32" => DataType::Int32,
        "i64" => DataType::Int64,
        "f64" => DataType::Float64,
        "date" => DataType::Date,
        "str" => DataType::String,
        "blob" => DataType::Blob,
        "dec" => DataType::Decimal(Some(28), Some(10)),
        "ts" => DataType::Timestamp,
        "tstz" => DataType::TimestampTz,
        "iv" => DataType::Interval,
        "vec" => DataType::Vector(3),
        _ => panic!("bad type {ty}"),
    }
}

fn parse_val(t: &str) -> DataValue {
    if t == "null" {
        return DataValue::Null;
    }
    let (tag, rest) = t.split_once(':').unwrap();
    match tag {
        "b" => DataValue::Bool(rest == "true"),
        "i16" => DataValue::Int16(rest.parse().unwrap()),
        "i32" => DataValue::Int32(rest.parse().unwrap()),
        "i64" => DataValue::Int64(rest.parse().unwrap()),
        "f64" => DataValue::Float64(f64::from_bits(u64::from_str_radix(rest, 16).unwrap()).into()),
        "date" => DataValue::Date(Date::new(rest.parse().unwrap())),
        "s" => DataValue::String(String::from_utf8(unhex(rest).unwrap()).unwrap().into()),
        "blob" => DataValue::Blob(unhex(rest).unwrap().into()),
        "ts" => DataValue::Timestamp(Timestamp::new(rest.parse().unwrap())),
        "tstz" => DataValue::TimestampTz(TimestampTz::new(rest.parse().unwrap())),
        "iv" => {
            let p: Vec<i32> = rest.split(':').map(|x| x.parse().unwrap()).collect();
            DataValue::Interval(Interval::from_md_ms(p[0], p[1], p[2]))
        }
        "dec" | "vec" => {
            // through the engine's own text parser (no rust_decimal dependency in the harness)
            let ty = if tag == "dec" { DataType::Decimal(Some(28), Some(10)) } else { DataType::Vector(3) };
            let mut b = ArrayBuilderImpl::new(&ty);
            b.push_str(&rest.replace(';', ",")).unwrap();
            b.finish().get(0)
        }
        _ => panic!("bad value {t}"),
    }
}

fn to_array(ty: &DataType, vals: &[DataValue]) -> ArrayImpl {
    let mut b = ArrayBuilderImpl::with_capacity(vals.len(), ty);
    for v in vals {
        b.push(v);
    }
    b.finish()
}

// ------------------------------------------------------------------------------------------
// generator
// ------------------------------------------------------------------------------------------

const TYPES: [&str; 8] = ["bool", "i16", "i32", "i64", "f64", "date", "str", "blob"];

fn gen_domain(r: &mut Rng, ty: &str, cw: Option<usize>, block: usize, feat: &mut Vec<&'static str>) -> Vec<DataValue> {
    let d = *r.pick(&[1usize, 2, 3, 5, 9, 30]);
    let mut out = vec![];
    for _ in 0..d {
        let v = match ty {
            "bool" => DataValue::Bool(r.chance(1, 2)),
            "i16" => DataValue::Int16(*r.pick(&[i16::MIN, -2, -1, 0, 1, 2, 255, 256, i16::MAX])),
            "i32" => DataValue::Int32(*r.pick(&[i32::MIN, -65536, -2, -1, 0, 1, 2, 127, 128, 255, 256, 65535, 0x01020304, i32::MAX])),
            "i64" => DataValue::Int64(*r.pick(&[i64::MIN, -(1 << 40), -1, 0, 1, 2, 255, 1 << 32, 0x0102030405060708, i64::MAX])),
            "date" => DataValue::Date(Date::new(*r.pick(&[i32::MIN, -719162, -1, 0, 1, 19000, 0x01020304, i32::MAX]))),
            "f64" => {
                let bits: u64 = if r.chance(1, 8) {
                    feat.push("f64-eq-nonidentical");
                    // values that OrderedFloat's Eq identifies with a different bit pattern
                    *r.pick(&[0x8000000000000000u64, 0x7ff8000000000001, 0xfff8000000000000, 0x7ff0000000000001])
                } else {
                    *r.pick(&[0u64, 0x3ff8000000000000, 0xbff8000000000000, 0x7ff8000000000000, 0x7ff0000000000000,
                              0xfff0000000000000, 0x0010000000000000, 0x7fefffffffffffff, 0x0000000000000001, 0x400921fb54442d18])
                };
                DataValue::Float64(f64::from_bits(bits).into())
            }
            "dec" => parse_val(&format!("dec:{}", r.pick(&["0", "1.5", "-1.5", "123456789.123456789", "-0.0000000001", "79228162514264337593543950335", "3", "42.42"]))),
            "ts" => DataValue::Timestamp(Timestamp::new(*r.pick(&[i64::MIN, -1, 0, 1, 1_700_000_000_000_000, 0x0102030405060708, i64::MAX]))),
            "tstz" => DataValue::TimestampTz(TimestampTz::new(*r.pick(&[i64::MIN, -1, 0, 1, 1_700_000_000_000_000, 0x0102030405060708, i64::MAX]))),
            "iv" => {
                let ms = if r.chance(1, 3) { feat.push("interval-subday"); *r.pick(&[1, -1, 999, 1000, 3_600_000, -5000, 86_399_999, i32::MAX, i32::MIN]) } else { 0 };
                parse_val(&format!("iv:{}:{}:{}", r.pick(&[0, 1, -1, 14, i32::MAX]), r.pick(&[0, 1, -1, 31, i32::MIN]), ms))
            }
            "vec" => parse_val(&format!("vec:{}", r.pick(&["[0;0;0]", "[1;2;3]", "[-1.5;0.25;1e300]", "[1;2;4]", "[NaN;inf;-inf]"]))),
            "str" | "blob" => {
                let maxlen = match cw { Some(w) => w, None => 64 };
                let mut bytes: Vec<u8> = match r.below(10) {
                    0 => vec![],
                    1 => b"a".to_vec(),
                    2 => "\u{e9}".as_bytes().to_vec(),
                    3 => "\u{65e5}\u{672c}".as_bytes().to_vec(),
                    4 => b"ab".to_vec(),
                    5 => { let l = r.below(maxlen as u64 + 1) as usize; (0..l).map(|i| b'a' + ((i as u8) % 26)).collect() }
                    6 if cw.is_none() => {
                        // longer than a (small) block
                        feat.push("item-longer-than-block");
                        let l = block + r.below(40) as usize; (0..l).map(|i| b'A' + ((i as u8) % 26)).collect()
                    }
                    7 => { let l = maxlen; (0..l).map(|_| b'z').collect() }
                    _ => { let l = r.below(6) as usize; (0..l).map(|_| b'a' + r.below(3) as u8).collect() }
                };
                if let Some(w) = cw {
                    // keep valid utf-8 when truncating: only ascii beyond this point
                    if bytes.len() > w { bytes = bytes.iter().filter(|b| b.is_ascii()).cloned().take(w).collect(); }
                    if r.chance(1, 60) && w >= 2 { feat.push("char-embedded-nul"); bytes = vec![b'x', 0, b'y'][..3.min(w)].to_vec(); }
                    if r.chance(1, 80) { feat.push("char-too-long"); bytes = (0..w + 1).map(|_| b'q').collect(); }
                } else if r.chance(1, 30) {
                    bytes.insert(0, 0); feat.push("var-embedded-nul");
                }
                if ty == "str" { DataValue::String(String::from_utf8(bytes).unwrap().into()) } else { DataValue::Blob(bytes.into()) }
            }
            _ => unreachable!(),
        };
        out.push(v);
    }
    out
}

fn gen_values(r: &mut Rng, n: usize, dom: &[DataValue], nullable: bool, nonull: bool, novec: bool, feat: &mut Vec<&'static str>) -> Vec<DataValue> {
    let null_in_nonnull = !nullable && r.chance(1, 25) && !nonull;
    if null_in_nonnull { feat.push("null-in-nonnullable"); }
    let nulls = (nullable && r.chance(4, 5) || null_in_nonnull) && !novec;
    let mut out = Vec::with_capacity(n);
    let style = r.below(4);
    while out.len() < n {
        let run = match style {
            0 => 1,
            1 => *r.pick(&[1usize, 1, 2, 3, 7, 8, 9]),
            2 => *r.pick(&[1usize, 2, 8, 15, 16, 17, 31, 33, 64, 130]),
            _ => 1 + r.below(4) as usize,
        };
        let v = if nulls && r.chance(1, 4) { DataValue::Null } else { r.pick(dom).clone() };
        for _ in 0..run {
            if out.len() < n { out.push(v.clone()); }
        }
    }
    out
}

fn gen_program(r: &mut Rng, n: usize, kind: u64) -> (usize, Vec<String>) {
    // returns (start, ops)
    let mut ops = vec![];
    let start = match kind {
        0 => 0,
        _ => match r.below(6) { 0 => 0, 1 => n, 2 => n.saturating_sub(1), _ => r.below(n as u64 + 1) as usize },
    };
    let sizes = [1usize, 1, 2, 3, 4, 5, 7, 8, 9, 15, 16, 17, 31, 32, 33, 64, 100, 1000];
    match kind {
        0 => {}
        1 => {
            // RowSetIterator discipline: batch/skip sizes bounded by the fetch hint
            let k = 2 + r.below(12);
            for _ in 0..k {
                match r.below(6) {
                    0 => ops.push("h".to_string()),
                    1 | 2 => ops.push(format!("sh:{}", r.pick(&sizes))),
                    _ => ops.push(format!("nh:{}", r.pick(&sizes))),
                }
            }
        }
        2 => {
            // free program: any batch sizes, any skips
            let k = 1 + r.below(14);
            for _ in 0..k {
                match r.below(10) {
                    0 => ops.push("h".to_string()),
                    1 => ops.push("r".to_string()),
                    2 | 3 | 4 => ops.push(format!("s:{}", r.pick(&sizes))),
                    5 => ops.push("n:-".to_string()),
                    _ => ops.push(format!("n:{}", r.pick(&sizes))),
                }
            }
        }
        _ => {
            // fixed batch size to the end
            let b = *r.pick(&sizes);
            for _ in 0..(3 + r.below(5)) { ops.push(format!("n:{b}")); }
        }
    }
    // drain
    let drain = if r.chance(1, 2) { "n:-".to_string() } else { format!("nh:{}", r.pick(&sizes)) };
    ops.push(format!("drain:{}", &drain));
    (start, ops)
}

fn gen(n_arrays: usize, out: &str) {
    let mut r = Rng::from_env();
    let mut s = String::new();
    for _ in 0..n_arrays {
        // 1 in 6 arrays uses a type without a byte model (read-back oracle only)
        let ty = if r.chance(1, 6) { *r.pick(&["dec", "ts", "tstz", "iv", "vec"]) } else { *r.pick(&TYPES) };
        let nullable = r.chance(1, 2);
        let enc = *r.pick(&["plain", "rle", "dict"]);
        let cw: Option<usize> = if ty == "str" && r.chance(2, 5) { Some(*r.pick(&[1usize, 2, 3, 5, 8, 16])) } else { None };
        let big = r.below(100);
        let block: usize = if big < 86 {
            *r.pick(&[17usize, 18, 19, 20, 21, 23, 24, 25, 28, 31, 32, 33, 40, 48, 63, 64, 65, 100, 127, 128])
        } else if big < 97 { 4096 } else { 16384 };
        let n: usize = if block > 1000 {
            if enc == "dict" { r.below(300) as usize } else if block > 5000 { (block / 8) * (1 + r.below(2) as usize) + r.below(50) as usize } else { (block / 4) * (1 + r.below(3) as usize) + r.below(50) as usize }
        } else {
            match r.below(10) { 0 => 0, 1 => 1, 2 => 2, 3 => r.below(300) as usize, _ => r.below(70) as usize }
        };
        let crc = r.chance(1, 4);
        let mut feat: Vec<&'static str> = vec![];
        let dom = gen_domain(&mut r, ty, cw, block.min(200), &mut feat);
        let vals = gen_values(&mut r, n, &dom, nullable, ["dec", "ts", "tstz", "iv", "vec"].contains(&ty), ty == "vec", &mut feat);
        let vtxt: Vec<String> = vals.iter().map(cv).collect();
        feat.sort(); feat.dedup();
        let nprog = if n == 0 { 1 } else { 4 };
        for kind in 0..nprog {
            let (start, ops) = gen_program(&mut r, n, kind);
            s += &format!(
                "enc {ty} {} {enc} {} {block} {} {start} {} {} {} {} #{}\n",
                nullable as u8,
                cw.map(|w| w.to_string()).unwrap_or("-".into()),
                crc as u8,
                vtxt.len(), vtxt.join(" "), ops.len(), ops.join(" "),
                if feat.is_empty() { "-".to_string() } else { feat.join("+") }
            );
        }
    }
    std::fs::write(out, s).unwrap();
}

// ------------------------------------------------------------------------------------------
// run
// ------------------------------------------------------------------------------------------

pub struct Req {
    pub ty: String,
    pub nullable: bool,
    pub enc: String,
    pub cw: Option<u64>,
    pub block: usize,
    pub crc: bool,
    pub start: u32,
    pub vals: Vec<String>,
    pub ops: Vec<String>,
}

pub fn parse_req(line: &str) -> Req {
    let t: Vec<&str> = line.split(' ').filter(|x| !x.is_empty()).collect();
    assert_eq!(t[0], "enc");
    let nv: usize = t[8].parse().unwrap();
    let vals: Vec<String> = t[9..9 + nv].iter().map(|x| x.to_string()).collect();
    let no: usize = t[9 + nv].parse().unwrap();
    let ops: Vec<String> = t[10 + nv..10 + nv + no].iter().map(|x| x.to_string()).collect();
    Req {
        ty: t[1].into(),
        nullable: t[2] == "1",
        enc: t[3].into(),
        cw: if t[4] == "-" { None } else { Some(t[4].parse().unwrap()) },
        block: t[5].parse().unwrap(),
        crc: t[6] == "1",
        start: t[7].parse().unwrap(),
        vals,
        ops,
    }
}

/// canonical value text without commas (vectors print as `[1,2,3]`)
fn cv(v: &DataValue) -> String {
    canon_value(v).replace(',', ";")
}

fn fmt_batch(row_id: u32, a: &ArrayImpl) -> String {
    let vs: Vec<String> = (0..a.len()).map(|i| cv(&a.get(i))).collect();
    format!("b:{}:{}", row_id, vs.join(","))
}

fn answer(rt: &tokio::runtime::Runtime, line: &str) -> String {
    let q = parse_req(line);
    let ty = dtype(&q.ty);
    let vals: Vec<DataValue> = q.vals.iter().map(|v| parse_val(v)).collect();
    let built = catch(|| {
        let arr = to_array(&ty, &vals);
        hk::build_column(&[arr], &ty, q.nullable, &q.enc, q.cw, q.block, q.crc, false)
    });
    let built = match built {
        Ok(b) => b,
        Err(_) => return "Bpanic".into(),
    };
    let idx: Vec<String> = built
        .index
        .iter()
        .map(|e| format!("{},{},{},{}", e.first_rowid, e.row_count, e.offset, e.length))
        .collect();
    let mut out = format!(
        "B {} {} R",
        if built.data.is_empty() { "-".to_string() } else { hex(&built.data) },
        if idx.is_empty() { "-".to_string() } else { idx.join(";") }
    );
    let mut outs: Vec<String> = vec![];
    let res = catch(|| {
        rt.block_on(async {
            let col = match hk::VerifColumn::open(built.data.clone(), &built.index_bytes, ty.clone(), q.cw, q.crc) {
                Ok(c) => c,
                Err(_) => { outs.push("err".into()); return; }
            };
            let mut it = match col.iter(q.start).await {
                Ok(i) => i,
                Err(_) => { outs.push("err".into()); return; }
            };
            for op in &q.ops {
                let (name, arg) = op.split_once(':').unwrap_or((op.as_str(), ""));
                let hinted = |it: &hk::VerifIter, k: usize| { let (h, _) = it.fetch_hint(); if h == 0 { k } else { k.min(h) } };
                match name {
                    "h" => { let (h, f) = it.fetch_hint(); outs.push(format!("h:{}:{}", h, f as u8)); }
                    "r" => outs.push(format!("r:{}", it.fetch_current_row_id())),
                    "s" => it.skip(arg.parse().unwrap()),
                    "sh" => { let k = hinted(&it, arg.parse().unwrap()); it.skip(k); outs.push(format!("k:{k}")); }
                    "n" | "nh" => {
                        let e: Option<usize> = if arg == "-" { None } else if name == "nh" { Some(hinted(&it, arg.parse().unwrap())) } else { Some(arg.parse().unwrap()) };
                        match it.next_batch(e).await {
                            Ok(Some((rid, a))) => outs.push(fmt_batch(rid, &a)),
                            Ok(None) => outs.push("none".into()),
                            Err(_) => outs.push("err".into()),
                        }
                    }
                    "drain" => {
                        // drain:<n:-|nh:k> : repeat until none (bounded)
                        let (dn, da) = arg.split_once(':').unwrap();
                        for _ in 0..(vals.len() + 8) {
                            let e: Option<usize> = if da == "-" { None } else if dn == "nh" { Some(hinted(&it, da.parse().unwrap())) } else { Some(da.parse().unwrap()) };
                            match it.next_batch(e).await {
                                Ok(Some((rid, a))) => outs.push(fmt_batch(rid, &a)),
                                Ok(None) => { outs.push("none".into()); break; }
                                Err(_) => { outs.push("err".into()); break; }
                            }
                        }
                    }
                    _ => panic!("bad op {op}"),
                }
            }
        })
    });
    if res.is_err() {
        outs.push("panic".into());
    }
    for o in outs {
        out.push(' ');
        out += &o;
    }
    out
}

fn main() {
    let args: Vec<String> = std::env::args().collect();
    match args[1].as_str() {
        "gen" => gen(args[2].parse().unwrap(), &args[3]),
        "run" => {
            let rt = runtime();
            for line in read_lines(&args[2]) {
                let line = line.split(" #").next().unwrap().to_string();
                println!("{}", answer(&rt, &line));
            }
        }
        _ => panic!("usage"),
    }
}
