//! C18 harness: corrupted column data is detected, not returned.
//!   c18 gen <n_columns> <out>      column-level requests (real builder output + patch + read sequence)
//!   c18 run <requests>             answers them with the REAL Column::get_block / ColumnIndex::from_bytes
//!   c18 disk <workdir> <n_cases>   on-disk databases (default_for_cli-like options, CRC32): corrupt
//!                                  *.col / *.idx files, query through SQL, print outcomes (jsonl)
//!
//! requests
//!   crc <hex>                                           -> <crc32 as decimal>
//!   col <hex .col> <off,len;..> <patch> <seq..>         -> one outcome per `g`
//!   idx <hex .idx> <patch>                              -> ok:<count> | err:<class>
//! patch : flip:<pos>:<bit> | set:<pos>:<byte> | trunc:<newlen> | ck0:<block> (checksum type := None)
//!         | settype:<block>:<t> (block type word := t; every other decodable type is swept)
//!         | zero12:<block>:<pos>:<byte> (checksum type and checksum := 0, payload byte := <byte>)
//!         | none
//!         idx only: cnt:<n> (footer block count := n) | zero12i:<pos>:<byte>
//! seq   : C (apply the patch to the file now) | F (fresh open: new cache) | g<b> (get_block b)
//! outcome: ok:<type>:<payload hex> | err:checksum | err:decode | err:io
use rlverif::risinglight::array::{ArrayBuilderImpl, ArrayImpl};
use rlverif::risinglight::storage::secondary_verif as hk;
use rlverif::risinglight::storage::SecondaryStorageOptions;
use rlverif::risinglight::types::{DataType, DataValue};
use rlverif::risinglight::Database;
use rlverif::*;

fn err_class(msg: &str) -> &'static str {
    // errors raised inside the cache loader arrive wrapped (`Nested(TracedStorageError { source: .. })`)
    if msg.contains("Checksum(") {
        "err:checksum"
    } else if msg.contains("Decode(") {
        "err:decode"
    } else if msg.contains("Io(") {
        "err:io"
    } else {
        "err:other"
    }
}

pub fn apply_patch(bytes: &mut Vec<u8>, patch: &str, entries: &[(usize, usize)]) {
    let t: Vec<&str> = patch.split(':').collect();
    match t[0] {
        "none" => {}
        "flip" => {
            let p: usize = t[1].parse().unwrap();
            let b: u8 = t[2].parse().unwrap();
            if p < bytes.len() { bytes[p] ^= 1 << b; }
        }
        "set" => {
            let p: usize = t[1].parse().unwrap();
            if p < bytes.len() { bytes[p] = t[2].parse().unwrap(); }
        }
        "trunc" => bytes.truncate(t[1].parse().unwrap()),
        "ck0" => {
            let (off, len) = entries[t[1].parse::<usize>().unwrap()];
            for i in off + len - 12..off + len - 8 { bytes[i] = 0; }
        }
        "zero12" => {
            let (off, len) = entries[t[1].parse::<usize>().unwrap()];
            for i in off + len - 12..off + len { bytes[i] = 0; }
            let p: usize = t[2].parse().unwrap();
            bytes[off + p] = t[3].parse().unwrap();
        }
        "settype" => {
            // block type word (4 bytes BE, first word of the trailer) := t
            let (off, len) = entries[t[1].parse::<usize>().unwrap()];
            let v: u32 = t[2].parse().unwrap();
            bytes[off + len - 16..off + len - 12].copy_from_slice(&v.to_be_bytes());
        }
        "cnt" => {
            let n = bytes.len();
            let v: u64 = t[1].parse().unwrap();
            bytes[n - 20..n - 12].copy_from_slice(&v.to_be_bytes());
        }
        "zero12i" => {
            let n = bytes.len();
            for i in n - 12..n { bytes[i] = 0; }
            let p: usize = t[1].parse().unwrap();
            bytes[p] = t[2].parse().unwrap();
        }
        _ => panic!("bad patch {patch}"),
    }
}

fn build_real(r: &mut Rng) -> (hk::BuiltColumn, DataType) {
    let (ty, vals): (DataType, Vec<DataValue>) = if r.chance(2, 3) {
        let n = 1 + r.below(40) as usize;
        (DataType::Int32, (0..n).map(|_| if r.chance(1, 6) { DataValue::Null } else { DataValue::Int32(r.range(-3, 300) as i32) }).collect())
    } else {
        let n = 1 + r.below(16) as usize;
        (DataType::String, (0..n).map(|_| {
            let l = r.below(9) as usize;
            DataValue::String((0..l).map(|_| (b'a' + r.below(26) as u8) as char).collect::<String>().into())
        }).collect())
    };
    let mut b = ArrayBuilderImpl::with_capacity(vals.len(), &ty);
    for v in &vals { b.push(v); }
    let arr: ArrayImpl = b.finish();
    let enc = *r.pick(&["plain", "plain", "rle", "dict"]);
    let block = *r.pick(&[24usize, 32, 48, 64, 128]);
    (hk::build_column(&[arr], &ty, true, enc, None, block, true, true), ty)
}

fn gen(n_cols: usize, out: &str) {
    let mut r = Rng::from_env();
    let mut s = String::new();
    // CRC model vs crc32fast on random buffers
    for k in 0..(n_cols * 4) {
        let len = match k % 8 { 0 => 0, 1 => 1, 2 => 4, _ => r.below(300) as usize };
        let buf: Vec<u8> = (0..len).map(|_| if r.chance(1, 5) { *r.pick(&[0u8, 0xff, 0x80, 1]) } else { r.below(256) as u8 }).collect();
        s += &format!("crc {}\n", if buf.is_empty() { "-".to_string() } else { hex(&buf) });
    }
    for _ in 0..n_cols {
        let (built, _ty) = build_real(&mut r);
        let ents: Vec<String> = built.index.iter().map(|e| format!("{},{}", e.offset, e.length)).collect();
        let nb = built.index.len();
        let colhex = hex(&built.data);
        let seqs = |b: usize| -> Vec<String> {
            vec![format!("C g{b} g{b}"), format!("C g{b} g{b} g{b} F g{b}"), format!("g{b} C g{b} F g{b} g{b}")]
        };
        let mut patches: Vec<(String, usize)> = vec![];
        let len = built.data.len();
        // every byte position once (flip or overwrite), plus boundary-heavy extras
        for p in 0..len {
            let b = built.index.iter().position(|e| (p as u64) < e.offset + e.length).unwrap();
            if r.chance(1, 2) { patches.push((format!("flip:{p}:{}", r.below(8)), b)); } else { patches.push((format!("set:{p}:{}", r.below(256)), b)); }
        }
        for (b, e) in built.index.iter().enumerate() {
            let (off, l) = (e.offset as usize, e.length as usize);
            for d in [16usize, 13, 12, 9, 8, 1] { patches.push((format!("flip:{}:{}", off + l - d, r.below(8)), b)); }
            patches.push((format!("ck0:{b}"), b));
            patches.push((format!("zero12:{b}:{}:{}", r.below((l - 16).max(1) as u64), r.below(256)), b));
            let orig_ty = u32::from_be_bytes(built.data[off + l - 16..off + l - 12].try_into().unwrap());
            for ty in 0..=19u32 { if ty != orig_ty { patches.push((format!("settype:{b}:{ty}"), b)); } }
            patches.push((format!("set:{}:2", off + l - 9), b)); // checksum type := invalid enum value
            patches.push((format!("set:{}:77", off + l - 13), b)); // block type := invalid enum value
        }
        for _ in 0..4 { patches.push((format!("trunc:{}", r.below(len as u64 + 1)), r.below(nb as u64) as usize)); }
        patches.push(("trunc:0".into(), 0));
        patches.push((format!("trunc:{}", len - 1), nb - 1));
        patches.push(("none".into(), 0));
        for (p, b) in patches {
            let sq = seqs(b);
            let q = &sq[r.below(sq.len() as u64) as usize];
            s += &format!("col {colhex} {} {p} {q}\n", ents.join(";"));
        }
        // index file
        let ih = hex(&built.index_bytes);
        let il = built.index_bytes.len();
        for p in 0..il {
            if r.chance(1, 2) { s += &format!("idx {ih} flip:{p}:{}\n", r.below(8)); } else { s += &format!("idx {ih} set:{p}:{}\n", r.below(256)); }
        }
        for t in [0usize, 1, 23, 24, il - 1, il / 2] { s += &format!("idx {ih} trunc:{t}\n"); }
        s += &format!("idx {ih} cnt:{}\n", nb.saturating_sub(1));
        s += &format!("idx {ih} cnt:{}\n", nb + 1);
        s += &format!("idx {ih} cnt:0\n");
        s += &format!("idx {ih} zero12i:{}:{}\n", r.below((il - 24) as u64), r.below(256));
        s += &format!("idx {ih} none\n");
    }
    std::fs::write(out, s).unwrap();
}

fn parse_entries(s: &str) -> Vec<(usize, usize)> {
    s.split(';').map(|e| { let (a, b) = e.split_once(',').unwrap(); (a.parse().unwrap(), b.parse().unwrap()) }).collect()
}

fn answer(rt: &tokio::runtime::Runtime, line: &str) -> String {
    let t: Vec<&str> = line.split(' ').collect();
    match t[0] {
        "crc" => format!("{}", hk::crc32(&if t[1] == "-" { vec![] } else { unhex(t[1]).unwrap() })),
        "idx" => {
            let mut bytes = unhex(t[1]).unwrap();
            apply_patch(&mut bytes, t[2], &[]);
            // `ColumnIndex::from_bytes` does `Vec::with_capacity(count)` with the unverified footer
            // count: a huge count aborts the process (allocation failure), which cannot be caught —
            // run those in a child process
            if bytes.len() >= 24 && std::env::var("C18_CHILD").is_err() {
                let n = bytes.len();
                let cnt = u64::from_be_bytes(bytes[n - 20..n - 12].try_into().unwrap());
                if cnt > (1 << 20) {
                    let out = std::process::Command::new(std::env::current_exe().unwrap())
                        .args(["one", line]).env("C18_CHILD", "1").output().unwrap();
                    let so = String::from_utf8_lossy(&out.stdout).trim().to_string();
                    return if out.status.success() && !so.is_empty() { so } else { "abort".to_string() };
                }
            }
            // a slice panic on a too-short file is the same class as a decode error (not Ok)
            match catch(|| hk::VerifColumn::open(vec![], &bytes, DataType::Int32, None, true)) {
                Err(_) => "err:decode".into(),
                Ok(Err(e)) => err_class(&e.to_string()).into(),
                Ok(Ok(c)) => format!("ok:{}", c.block_count()),
            }
        }
        "col" => {
            let pristine = unhex(t[1]).unwrap();
            let entries = parse_entries(t[2]);
            // a pristine index for exactly these entries
            let idx = {
                // rebuild through the real IndexBuilder: one int column with the same block layout is
                // not reproducible here, so the index bytes travel implicitly: open from pristine
                // entries via a synthetic index (protobuf of offset/length/first_rowid/row_count)
                synth_index(&entries)
            };
            let mut file = pristine.clone();
            let mut col = hk::VerifColumn::open(file.clone(), &idx, DataType::Int32, None, true).unwrap();
            let mut outs = vec![];
            for op in &t[4..] {
                match op.as_bytes()[0] {
                    b'C' => { apply_patch(&mut file, t[3], &entries); col = col.with_data(file.clone()); }
                    b'F' => { col = hk::VerifColumn::open(file.clone(), &idx, DataType::Int32, None, true).unwrap(); }
                    b'g' => {
                        let b: u32 = op[1..].parse().unwrap();
                        // the in-memory file backend slices the buffer (panics when the file is too
                        // short) where the disk backends return an I/O error: same class
                        let r = catch(|| rt.block_on(col.get_block(b)));
                        outs.push(match r {
                            Err(_) => "err:io".to_string(),
                            Ok(Err(e)) => err_class(&e.to_string()).to_string(),
                            Ok(Ok((ty, payload))) => format!("ok:{}:{}", ty, hex(&payload)),
                        });
                    }
                    _ => panic!("bad op {op}"),
                }
            }
            outs.join(" ")
        }
        _ => "bad-request".into(),
    }
}

/// A valid index file (checksum None) describing blocks at the given (offset, length)s: protobuf
/// `BlockIndex { offset = 2, length = 3, first_rowid = 4, row_count = 5 }`, length-delimited.
fn synth_index(entries: &[(usize, usize)]) -> Vec<u8> {
    fn varint(mut v: u64, out: &mut Vec<u8>) {
        loop { if v < 0x80 { out.push(v as u8); break; } out.push((v & 0x7f) as u8 | 0x80); v >>= 7; }
    }
    let mut data = vec![];
    for (i, (off, len)) in entries.iter().enumerate() {
        let mut m = vec![];
        if *off != 0 { m.push(0x10); varint(*off as u64, &mut m); }
        m.push(0x18); varint(*len as u64, &mut m);
        if i != 0 { m.push(0x20); varint(i as u64, &mut m); }
        m.push(0x28); varint(1, &mut m);
        varint(m.len() as u64, &mut data);
        data.extend(m);
    }
    // footer with a CRC-32 over the entries: the reader is opened as a storage configured with
    // Crc32, which refuses a footer that says checksum type None
    let ck = hk::crc32(&data);
    data.extend(0x2333u32.to_be_bytes());
    data.extend((entries.len() as u64).to_be_bytes());
    data.extend(1i32.to_be_bytes());
    data.extend(ck.to_be_bytes());
    data
}

// ------------------------------------------------------------------------------------------
// on-disk databases through SQL
// ------------------------------------------------------------------------------------------

fn copy_dir(from: &std::path::Path, to: &std::path::Path) {
    std::fs::create_dir_all(to).unwrap();
    for e in std::fs::read_dir(from).unwrap() {
        let e = e.unwrap();
        let p = e.path();
        let q = to.join(e.file_name());
        if p.is_dir() { copy_dir(&p, &q); } else { std::fs::copy(&p, &q).unwrap(); }
    }
}

fn options(path: &std::path::Path) -> SecondaryStorageOptions {
    let mut o = SecondaryStorageOptions::default_for_cli(); // CRC32 checksums
    o.path = path.to_path_buf();
    o.target_block_size = 64;
    o.cache_size = 1024;
    o
}

fn query(rt: &tokio::runtime::Runtime, db: &Database, sql: &str, want: &Outcome) -> String {
    match run_sql(rt, db, sql) {
        Outcome::Ok(rows) => match want { Outcome::Ok(w) if *w == rows => "same".into(), _ => format!("DIFF:{}", render_rows(rows, false)) },
        Outcome::Err(e) => {
            let e = e.replace('\n', " ");
            let cls = if e.contains("Checksum") { "checksum" } else if e.contains("Decode") { "decode" } else if e.contains("Io(") || e.contains("IO error") { "io" } else { "other" };
            format!("err:{cls}")
        }
        Outcome::Panic(_) => "panic".into(),
    }
}

fn disk(work: &str, n_cases: usize) {
    let rt = runtime();
    let mut r = Rng::from_env();
    let base = std::path::Path::new(work).join("c18-base");
    let _ = std::fs::remove_dir_all(&base);
    // base database: table t (corrupted later), table u (never touched)
    let nrows = 30;
    let (t_dirs, want_t, want_u) = {
        let db = rt.block_on(Database::new_on_disk(options(&base)));
        run_sql(&rt, &db, "create table t (a int, b varchar)");
        let vals: Vec<String> = (0..nrows).map(|i| format!("({}, '{}')", i * 7 + 1, ["x", "yy", "zzz", ""][i % 4])).collect();
        run_sql(&rt, &db, &format!("insert into t values {}", vals.join(", ")));
        let list = |p: &std::path::Path| -> Vec<String> {
            std::fs::read_dir(p).unwrap().filter_map(|e| { let e = e.unwrap(); if e.path().is_dir() { Some(e.file_name().to_string_lossy().to_string()) } else { None } }).collect()
        };
        let t_dirs = list(&base);
        run_sql(&rt, &db, "create table u (k int)");
        run_sql(&rt, &db, "insert into u values (10), (20), (30)");
        let want_t = run_sql(&rt, &db, "select a, b from t");
        let want_u = run_sql(&rt, &db, "select k from u");
        let _ = rt.block_on(db.shutdown());
        (t_dirs, want_t, want_u)
    };
    // files of table t
    let mut files: Vec<(String, Vec<u8>)> = vec![];
    for d in &t_dirs {
        for e in std::fs::read_dir(base.join(d)).unwrap() {
            let p = e.unwrap().path();
            let name = p.file_name().unwrap().to_string_lossy().to_string();
            if name.ends_with(".col") || name.ends_with(".idx") {
                files.push((format!("{d}/{name}"), std::fs::read(&p).unwrap()));
            }
        }
    }
    files.sort();
    if let Outcome::Ok(rows) = &want_t {
        println!("{{\"want_t\":\"{}\"}}", render_rows(rows.clone(), false));
    }
    // layout of every file for the model (entries of .col files come from the real index reader)
    for (name, bytes) in &files {
        if name.ends_with(".idx") {
            let c = hk::VerifColumn::open(vec![], bytes, DataType::Int32, None, true).unwrap();
            let ents: Vec<String> = c.index_entries().iter().map(|e| format!("{},{}", e.offset, e.length)).collect();
            println!("{{\"layout\":\"{}\",\"len\":{},\"entries\":\"{}\",\"hex\":\"{}\"}}", name, bytes.len(), ents.join(";"), hex(bytes));
        } else {
            println!("{{\"layout\":\"{}\",\"len\":{},\"hex\":\"{}\"}}", name, bytes.len(), hex(bytes));
        }
    }
    // corruption plan
    let mut plan: Vec<(usize, String)> = vec![];
    for (fi, (name, bytes)) in files.iter().enumerate() {
        let len = bytes.len();
        for p in 0..len {
            plan.push((fi, format!("flip:{p}:{}", r.below(8))));
            plan.push((fi, format!("set:{p}:{}", r.below(256))));
        }
        for t in [0usize, 1, len / 2, len - 1, len.saturating_sub(12), len.saturating_sub(16), len.saturating_sub(24)] {
            plan.push((fi, format!("trunc:{t}")));
        }
        if name.ends_with(".idx") {
            plan.push((fi, "cnt:0".into()));
            plan.push((fi, "cnt:1".into()));
            plan.push((fi, "cnt:99".into()));
            plan.push((fi, format!("zero12i:{}:{}", r.below((len - 24) as u64), r.below(256))));
        } else {
            {
                let idxname = name.replace(".col", ".idx");
                let ib = &files.iter().find(|(n, _)| *n == idxname).unwrap().1;
                let ents: Vec<(usize, usize)> = hk::VerifColumn::open(vec![], ib, DataType::Int32, None, true).unwrap().index_entries().iter().map(|e| (e.offset as usize, e.length as usize)).collect();
                let mut bs = vec![0usize, ents.len() - 1];
                bs.dedup();
                for b in bs {
                    let (off, l) = ents[b];
                    let orig_ty = u32::from_be_bytes(bytes[off + l - 16..off + l - 12].try_into().unwrap());
                    for ty in 0..=18u32 { if ty != orig_ty { plan.push((fi, format!("settype:{b}:{ty}"))); } }
                }
            }
            plan.push((fi, "ck0:0".into()));
            plan.push((fi, format!("zero12:0:{}:{}", r.below(4), 65)));
            plan.push((fi, format!("zero12:1:{}:{}", r.below(4), 66)));
        }
    }
    // deterministic sample: structured patches always, byte sweeps sampled
    let mut chosen: Vec<(usize, String)> = plan.iter().filter(|(_, p)| !(p.starts_with("flip") || p.starts_with("set"))).cloned().collect();
    let sweeps: Vec<(usize, String)> = plan.iter().filter(|(_, p)| p.starts_with("flip") || p.starts_with("set")).cloned().collect();
    let want = n_cases.saturating_sub(chosen.len());
    if want >= sweeps.len() { chosen.extend(sweeps); } else {
        let mut idxs: Vec<usize> = (0..sweeps.len()).collect();
        for i in 0..want { let j = i + r.below((idxs.len() - i) as u64) as usize; idxs.swap(i, j); }
        let mut pick: Vec<usize> = idxs[..want].to_vec();
        pick.sort();
        for i in pick { chosen.push(sweeps[i].clone()); }
    }
    let scratch = std::path::Path::new(work).join("c18-case");
    for (fi, patch) in chosen {
        // a panic of the harness itself in one case must not end the sweep
        let label = format!("{}|{}", files[fi].0, patch);
        let case_result = catch(|| {
        let (name, bytes) = &files[fi];
        let _ = std::fs::remove_dir_all(&scratch);
        copy_dir(&base, &scratch);
        let entries: Vec<(usize, usize)> = if name.ends_with(".col") {
            let idxname = name.replace(".col", ".idx");
            let ib = &files.iter().find(|(n, _)| *n == idxname).unwrap().1;
            hk::VerifColumn::open(vec![], ib, DataType::Int32, None, true).unwrap().index_entries().iter().map(|e| (e.offset as usize, e.length as usize)).collect()
        } else { vec![] };
        let mut b = bytes.clone();
        apply_patch(&mut b, &patch, &entries);
        std::fs::write(scratch.join(name), &b).unwrap();
        let mut res: Vec<String> = vec![];
        // a fresh runtime per case: dropping it drops the compactor / vacuum tasks of the databases
        // opened in the case (Database::shutdown waits for the compactor's 1 s timer)
        let rt = runtime();
        // an unverified huge footer count makes `Vec::with_capacity(count)` abort the process:
        // probe the open in a child process first
        let mut aborted = false;
        if name.ends_with(".idx") && b.len() >= 24 {
            let n = b.len();
            let cnt = u64::from_be_bytes(b[n - 20..n - 12].try_into().unwrap());
            if cnt > (1 << 20) {
                let st = std::process::Command::new(std::env::current_exe().unwrap())
                    .args(["openonly", scratch.to_str().unwrap()]).output().unwrap();
                aborted = !st.status.success();
            }
        }
        if aborted {
            println!("{{\"file\":\"{}\",\"patch\":\"{}\",\"res\":\"open:abort\"}}", name, patch);
            return;
        }
        match catch(|| rt.block_on(Database::new_on_disk(options(&scratch)))) {
            Err(_) => res.push("open:panic".into()),
            Ok(db) => {
                res.push("open:ok".into());
                res.push(format!("q1:{}", query(&rt, &db, "select a, b from t", &want_t)));
                res.push(format!("q2:{}", query(&rt, &db, "select a, b from t", &want_t)));
                res.push(format!("q3:{}", query(&rt, &db, "select a, b from t", &want_t)));
                res.push(format!("u:{}", query(&rt, &db, "select k from u", &want_u)));
                drop(db);
                match catch(|| rt.block_on(Database::new_on_disk(options(&scratch)))) {
                    Err(_) => res.push("reopen:panic".into()),
                    Ok(db2) => {
                        res.push("reopen:ok".into());
                        res.push(format!("r1:{}", query(&rt, &db2, "select a, b from t", &want_t)));
                        res.push(format!("ru:{}", query(&rt, &db2, "select k from u", &want_u)));
                    }
                }
            }
        }
        println!("{{\"file\":\"{}\",\"patch\":\"{}\",\"res\":\"{}\"}}", name, patch, res.join(" "));
        });
        if let Err(m) = case_result {
            let (f, p) = label.split_once('|').unwrap();
            println!("{{\"file\":\"{}\",\"patch\":\"{}\",\"res\":\"harness-panic:{}\"}}", f, p, m.replace('"', "'").replace('\n', " ").chars().take(200).collect::<String>());
        }
    }
    let _ = std::fs::remove_dir_all(&scratch);
    let _ = std::fs::remove_dir_all(&base);
}

// ------------------------------------------------------------------------------------------
// background compaction reads the corrupted block first
// ------------------------------------------------------------------------------------------

fn compact_once(rt: &tokio::runtime::Runtime, db: &Database) -> String {
    use rlverif::risinglight::storage::StorageImpl;
    let st = match db.verif_storage() { StorageImpl::SecondaryStorage(s) => s, _ => unreachable!() };
    match catch(|| rt.block_on(st.verif_compact_once())) {
        Err(_) => "panic".into(),
        Ok(Ok(())) => "ok".into(),
        Ok(Err(e)) => { let m = e.to_string(); err_class(&m).to_string() }
    }
}

fn rowset_dirs(p: &std::path::Path) -> Vec<String> {
    let mut v: Vec<String> = std::fs::read_dir(p).unwrap().filter_map(|e| { let e = e.unwrap(); if e.path().is_dir() { Some(e.file_name().to_string_lossy().to_string()) } else { None } }).collect();
    v.sort();
    v
}

/// `c18 compact <workdir> <n>`: table t in TWO row-sets (so that a compaction pass selects them),
/// one block of one of its column files corrupted; sequences
///   A: open, compaction pass, compaction pass, SELECT, fresh reopen, SELECT
///   B: open, SELECT (first read), compaction pass, SELECT, fresh reopen, SELECT
fn compact_table(work: &str, n_cases: usize, keyed: bool, r: &mut Rng) {
    let base = std::path::Path::new(work).join("c18c-base");
    let _ = std::fs::remove_dir_all(&base);
    let (want_t, want_u) = {
        let rt = runtime();
        let db = rt.block_on(Database::verif_new_on_disk_nobg(options(&base))).unwrap();
        // keyed: the sorted scan of a table with a PRIMARY KEY and the compactor of such a table go
        // through MergeIterator (one child iterator per row-set) instead of the concat path
        run_sql(&rt, &db, if keyed { "create table t (a int primary key, b varchar)" } else { "create table t (a int, b varchar)" });
        for part in 0..2 {
            let vals: Vec<String> = (0..20).map(|i| format!("({}, '{}')", part * 1000 + i * 7 + 1, ["x", "yy", "zzz", ""][i % 4])).collect();
            run_sql(&rt, &db, &format!("insert into t values {}", vals.join(", ")));
        }
        run_sql(&rt, &db, "create table u (k int)");
        run_sql(&rt, &db, "insert into u values (10), (20), (30)");
        (run_sql(&rt, &db, "select a, b from t order by a"), run_sql(&rt, &db, "select k from u"))
    };
    if let Outcome::Ok(rows) = &want_t {
        println!("{{\"compact_want\":\"{}\",\"keyed\":{}}}", render_rows(rows.clone(), false), keyed);
    }
    let dirs = rowset_dirs(&base);
    let mut files: Vec<(String, Vec<u8>)> = vec![];
    for d in &dirs {
        if !d.starts_with("0_") { continue; } // table t has id 0
        for e in std::fs::read_dir(base.join(d)).unwrap() {
            let p = e.unwrap().path();
            let name = p.file_name().unwrap().to_string_lossy().to_string();
            if name.ends_with(".col") { files.push((format!("{d}/{name}"), std::fs::read(&p).unwrap())); }
        }
    }
    files.sort();
    println!("{{\"compact_base\":{{\"keyed\":{},\"rowset_dirs\":{:?},\"col_files\":{}}}}}", keyed, dirs, files.len());
    let scratch = std::path::Path::new(work).join("c18c-case");
    for case in 0..n_cases {
        let (name, bytes) = &files[case % files.len()];
        let idxname = name.replace(".col", ".idx");
        let ib = std::fs::read(base.join(&idxname)).unwrap();
        let entries: Vec<(usize, usize)> = hk::VerifColumn::open(vec![], &ib, DataType::Int32, None, true).unwrap()
            .index_entries().iter().map(|e| (e.offset as usize, e.length as usize)).collect();
        // keyed table: mostly a NON-first block (the first block of a column is verified when the
        // row-set iterator is created, later blocks while the merge is under way)
        let b = if keyed && entries.len() > 1 && r.chance(3, 4) { 1 + r.below(entries.len() as u64 - 1) as usize } else { r.below(entries.len() as u64) as usize };
        let (off, len) = entries[b];
        // payload positions mostly, sometimes the trailer
        let patch = match r.below(8) {
            0 => format!("zero12:{b}:{}:{}", r.below((len - 16).max(1) as u64), 1 + r.below(255)),
            1 => format!("flip:{}:{}", off + len - 1 - r.below(16) as usize, r.below(8)),
            2 | 3 => format!("set:{}:{}", off + r.below((len - 16).max(1) as u64) as usize, r.below(256)),
            _ => format!("flip:{}:{}", off + r.below((len - 16).max(1) as u64) as usize, r.below(8)),
        };
        let seq = if case % 2 == 0 { "A" } else { "B" };
        let _ = std::fs::remove_dir_all(&scratch);
        copy_dir(&base, &scratch);
        let mut bb = bytes.clone();
        apply_patch(&mut bb, &patch, &entries);
        let changed = bb != *bytes;
        std::fs::write(scratch.join(name), &bb).unwrap();
        let rt = runtime();
        let mut res: Vec<String> = vec![];
        match catch(|| rt.block_on(Database::verif_new_on_disk_nobg(options(&scratch)))) {
            Err(_) | Ok(Err(_)) => res.push("open:err".into()),
            Ok(Ok(db)) => {
                res.push("open:ok".into());
                if seq == "A" {
                    res.push(format!("c1:{}", compact_once(&rt, &db)));
                    res.push(format!("c2:{}", compact_once(&rt, &db)));
                    res.push(format!("q1:{}", query(&rt, &db, "select a, b from t order by a", &want_t)));
                } else {
                    res.push(format!("q1:{}", query(&rt, &db, "select a, b from t order by a", &want_t)));
                    res.push(format!("c1:{}", compact_once(&rt, &db)));
                    res.push(format!("q2:{}", query(&rt, &db, "select a, b from t order by a", &want_t)));
                }
                res.push(format!("u:{}", query(&rt, &db, "select k from u", &want_u)));
                res.push(format!("dirs:{}", rowset_dirs(&scratch).join("+")));
                drop(db);
                match catch(|| rt.block_on(Database::verif_new_on_disk_nobg(options(&scratch)))) {
                    Err(_) | Ok(Err(_)) => res.push("reopen:err".into()),
                    Ok(Ok(db2)) => {
                        res.push("reopen:ok".into());
                        res.push(format!("r1:{}", query(&rt, &db2, "select a, b from t order by a", &want_t)));
                        res.push(format!("r2:{}", query(&rt, &db2, "select a, b from t order by a", &want_t)));
                    }
                }
            }
        }
        let ents: Vec<String> = entries.iter().map(|(o, l)| format!("{o},{l}")).collect();
        println!("{{\"file\":\"{}\",\"keyed\":{},\"patch\":\"{}\",\"seq\":\"{}\",\"changed\":{},\"block\":{},\"nblocks\":{},\"hex\":\"{}\",\"entries\":\"{}\",\"res\":\"{}\"}}", name, keyed, patch, seq, changed, b, entries.len(), hex(bytes), ents.join(";"), res.join(" "));
    }
    let _ = std::fs::remove_dir_all(&scratch);
    let _ = std::fs::remove_dir_all(&base);
}

/// key-less table: concat scan path; keyed table: MergeIterator (sorted scan and compaction)
fn compact(work: &str, n_cases: usize) {
    let mut r = Rng::from_env();
    compact_table(work, n_cases - n_cases / 2, false, &mut r);
    compact_table(work, n_cases / 2, true, &mut r);
}

// ------------------------------------------------------------------------------------------
// corruption BETWEEN reads of an open database
// ------------------------------------------------------------------------------------------

/// `c18 reread <workdir> <n>`: open the database with a given block-cache capacity (0 = nothing stays
/// cached, 1 / 2 / 8 = eviction under way, 1024 = everything stays cached), read table t once (every
/// block is loaded and verified), THEN alter one block of one of its column files in place while the
/// database stays open, and read again twice; finally a fresh reopen.  Every read after the alteration
/// must fail or return the original rows (a block still in the cache).
fn reread(work: &str, n_cases: usize) {
    let mut r = Rng::from_env();
    for keyed in [false, true] {
        let base = std::path::Path::new(work).join("c18r-base");
        let _ = std::fs::remove_dir_all(&base);
        let (want_t, want_u) = {
            let rt = runtime();
            let db = rt.block_on(Database::verif_new_on_disk_nobg(options(&base))).unwrap();
            run_sql(&rt, &db, if keyed { "create table t (a int primary key, b varchar)" } else { "create table t (a int, b varchar)" });
            for part in 0..2 {
                let vals: Vec<String> = (0..20).map(|i| format!("({}, '{}')", part * 1000 + i * 7 + 1, ["x", "yy", "zzz", ""][i % 4])).collect();
                run_sql(&rt, &db, &format!("insert into t values {}", vals.join(", ")));
            }
            run_sql(&rt, &db, "create table u (k int)");
            run_sql(&rt, &db, "insert into u values (10), (20), (30)");
            (run_sql(&rt, &db, "select a, b from t order by a"), run_sql(&rt, &db, "select k from u"))
        };
        if let Outcome::Ok(rows) = &want_t {
            println!("{{\"reread_want\":\"{}\",\"keyed\":{}}}", render_rows(rows.clone(), false), keyed);
        }
        let mut files: Vec<(String, Vec<u8>)> = vec![];
        for d in &rowset_dirs(&base) {
            if !d.starts_with("0_") { continue; }
            for e in std::fs::read_dir(base.join(d)).unwrap() {
                let p = e.unwrap().path();
                let name = p.file_name().unwrap().to_string_lossy().to_string();
                if name.ends_with(".col") { files.push((format!("{d}/{name}"), std::fs::read(&p).unwrap())); }
            }
        }
        files.sort();
        let scratch = std::path::Path::new(work).join("c18r-case");
        let n = if keyed { n_cases / 2 } else { n_cases - n_cases / 2 };
        for case in 0..n {
            // moka evicts lazily: capacities 1 / 8 mostly still serve the hit; only 0 guarantees a reload
            let cache = [0usize, 0, 1, 0, 8, 1024][case % 6];
            let (name, bytes) = &files[(case / 2) % files.len()];
            let ib = std::fs::read(base.join(name.replace(".col", ".idx"))).unwrap();
            let entries: Vec<(usize, usize)> = hk::VerifColumn::open(vec![], &ib, DataType::Int32, None, true).unwrap()
                .index_entries().iter().map(|e| (e.offset as usize, e.length as usize)).collect();
            let b = r.below(entries.len() as u64) as usize;
            let (off, len) = entries[b];
            let patch = match r.below(8) {
                0 => format!("zero12:{b}:{}:{}", r.below((len - 16).max(1) as u64), 1 + r.below(255)),
                1 => format!("flip:{}:{}", off + len - 1 - r.below(16) as usize, r.below(8)),
                2 | 3 => format!("set:{}:{}", off + r.below((len - 16).max(1) as u64) as usize, r.below(256)),
                _ => format!("flip:{}:{}", off + r.below((len - 16).max(1) as u64) as usize, r.below(8)),
            };
            let mut bb = bytes.clone();
            apply_patch(&mut bb, &patch, &entries);
            let changed = bb != *bytes;
            let _ = std::fs::remove_dir_all(&scratch);
            copy_dir(&base, &scratch);
            let mut o = options(&scratch);
            o.cache_size = cache;
            let rt = runtime();
            let mut res: Vec<String> = vec![];
            match catch(|| rt.block_on(Database::verif_new_on_disk_nobg(o.clone()))) {
                Err(_) | Ok(Err(_)) => res.push("open:err".into()),
                Ok(Ok(db)) => {
                    res.push("open:ok".into());
                    // first read: every block of t is loaded from its file and verified
                    res.push(format!("q0:{}", query(&rt, &db, "select a, b from t order by a", &want_t)));
                    // the file is altered in place while the database stays open (same inode: the
                    // column's open file handle sees the new bytes)
                    {
                        use std::io::{Seek, SeekFrom, Write};
                        let mut fh = std::fs::OpenOptions::new().write(true).open(scratch.join(name)).unwrap();
                        fh.seek(SeekFrom::Start(0)).unwrap();
                        fh.write_all(&bb).unwrap();
                        fh.sync_all().unwrap();
                    }
                    res.push(format!("q1:{}", query(&rt, &db, "select a, b from t order by a", &want_t)));
                    res.push(format!("q2:{}", query(&rt, &db, "select a, b from t order by a", &want_t)));
                    res.push(format!("u:{}", query(&rt, &db, "select k from u", &want_u)));
                    drop(db);
                    match catch(|| rt.block_on(Database::verif_new_on_disk_nobg(o.clone()))) {
                        Err(_) | Ok(Err(_)) => res.push("reopen:err".into()),
                        Ok(Ok(db2)) => {
                            res.push("reopen:ok".into());
                            res.push(format!("r1:{}", query(&rt, &db2, "select a, b from t order by a", &want_t)));
                        }
                    }
                }
            }
            println!("{{\"file\":\"{}\",\"keyed\":{},\"cache\":{},\"patch\":\"{}\",\"changed\":{},\"block\":{},\"nblocks\":{},\"offset\":{},\"res\":\"{}\"}}",
                     name, keyed, cache, patch, changed, b, entries.len(), off, res.join(" "));
        }
        let _ = std::fs::remove_dir_all(&scratch);
        let _ = std::fs::remove_dir_all(&base);
    }
}

fn main() {
    let args: Vec<String> = std::env::args().collect();
    match args[1].as_str() {
        "gen" => gen(args[2].parse().unwrap(), &args[3]),
        "run" => {
            let rt = runtime();
            for line in read_lines(&args[2]) {
                println!("{}", answer(&rt, &line));
            }
        }
        "disk" => disk(&args[2], args[3].parse().unwrap()),
        "compact" => compact(&args[2], args[3].parse().unwrap()),
        "reread" => reread(&args[2], args[3].parse().unwrap()),
        "openonly" => {
            // exit code 0: open returned or panicked (caught); killed by SIGABRT otherwise
            let rt = runtime();
            let _ = catch(|| rt.block_on(Database::new_on_disk(options(std::path::Path::new(&args[2])))));
        }
        "one" => { let rt = runtime(); println!("{}", answer(&rt, &args[2])); }
        _ => panic!("usage"),
    }
}
