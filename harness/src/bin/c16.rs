//! C16 harness: static types (`TypeSchemaAnalysis`), runtime array variants, INSERT + SELECT *.
//!
//!   c16 gen <n> <out>            requests for model and implementation (syntax: lean/Drivers/C16.lean)
//!   c16 gensql <n> <out>         SQL queries for the model-free static-vs-runtime comparison
//!   c16 run <requests> <workdir> one answer line per request
//!   c16 runsql <queries> <workdir>
use egg::Id;
use rlverif::risinglight::array::ArrayImpl;
use rlverif::risinglight::planner::{Expr, RecExpr, TypeSchemaAnalysis};
use rlverif::risinglight::storage::SecondaryStorageOptions;
use rlverif::risinglight::types::{DataType, DataValue};
use rlverif::risinglight::Database;
use rlverif::*;

fn dt(name: &str) -> DataType {
    match name {
        "NULL" => DataType::Null,
        "BOOLEAN" => DataType::Bool,
        "SMALLINT" => DataType::Int16,
        "INT" => DataType::Int32,
        "BIGINT" => DataType::Int64,
        "DOUBLE" => DataType::Float64,
        "DECIMAL" => DataType::Decimal(None, None),
        "DATE" => DataType::Date,
        "TIMESTAMP" => DataType::Timestamp,
        "TIMESTAMPTZ" => DataType::TimestampTz,
        "INTERVAL" => DataType::Interval,
        "STRING" => DataType::String,
        "BLOB" => DataType::Blob,
        t => panic!("bad type {t}"),
    }
}

fn dt_name(t: &DataType) -> String {
    match t {
        DataType::Null => "NULL".into(),
        DataType::Bool => "BOOLEAN".into(),
        DataType::Int16 => "SMALLINT".into(),
        DataType::Int32 => "INT".into(),
        DataType::Int64 => "BIGINT".into(),
        DataType::Float64 => "DOUBLE".into(),
        DataType::Decimal(None, None) => "DECIMAL".into(),
        DataType::Decimal(_, _) => "DECIMAL".into(),
        DataType::Date => "DATE".into(),
        DataType::Timestamp => "TIMESTAMP".into(),
        DataType::TimestampTz => "TIMESTAMPTZ".into(),
        DataType::Interval => "INTERVAL".into(),
        DataType::String => "STRING".into(),
        DataType::Blob => "BLOB".into(),
        other => format!("{other}"),
    }
}

fn variant_name(a: &ArrayImpl) -> &'static str {
    match a {
        ArrayImpl::Null(_) => "NULL",
        ArrayImpl::Bool(_) => "BOOLEAN",
        ArrayImpl::Int16(_) => "SMALLINT",
        ArrayImpl::Int32(_) => "INT",
        ArrayImpl::Int64(_) => "BIGINT",
        ArrayImpl::Float64(_) => "DOUBLE",
        ArrayImpl::Decimal(_) => "DECIMAL",
        ArrayImpl::Date(_) => "DATE",
        ArrayImpl::Timestamp(_) => "TIMESTAMP",
        ArrayImpl::TimestampTz(_) => "TIMESTAMPTZ",
        ArrayImpl::Interval(_) => "INTERVAL",
        ArrayImpl::String(_) => "STRING",
        ArrayImpl::Blob(_) => "BLOB",
        ArrayImpl::Vector(_) => "VECTOR",
    }
}

fn field_node() -> Expr {
    let r: RecExpr = "(extract YEAR null)".parse().unwrap();
    r.as_ref()[0].clone()
}

fn add_t(e: &Sexp, out: &mut RecExpr) -> Id {
    match e {
        Sexp::Atom(a) if a == "rowcount" => out.add(Expr::RowCount),
        Sexp::Atom(a) if a == "bad" => {
            // a node whose type is unavailable: a column reference the catalog does not know
            let r: RecExpr = "$99.9".parse().unwrap();
            out.add(r.as_ref()[0].clone())
        }
        Sexp::Atom(a) => panic!("bad atom {a}"),
        Sexp::List(l) => {
            let op = l[0].as_atom().unwrap();
            match (op, l.len()) {
                ("leaf", 2) => {
                    let t = dt(l[1].as_atom().unwrap());
                    let n = out.add(Expr::Constant(DataValue::Null));
                    if t == DataType::Null {
                        n
                    } else {
                        let ty = out.add(Expr::Type(t));
                        out.add(Expr::Cast([ty, n]))
                    }
                }
                ("cast", 3) => {
                    let ty = out.add(Expr::Type(dt(l[1].as_atom().unwrap())));
                    let a = add_t(&l[2], out);
                    out.add(Expr::Cast([ty, a]))
                }
                ("in", 3) => {
                    let x = add_t(&l[1], out);
                    let ids: Vec<Id> = l[2].as_list().unwrap()[1..].iter().map(|v| add_t(v, out)).collect();
                    let list = out.add(Expr::List(ids.into()));
                    out.add(Expr::In([x, list]))
                }
                ("extract", 2) => {
                    let f = out.add(field_node());
                    let a = add_t(&l[1], out);
                    out.add(Expr::Extract([f, a]))
                }
                (_, 2) => {
                    let a = add_t(&l[1], out);
                    out.add(match op {
                        "neg" => Expr::Neg(a),
                        "not" => Expr::Not(a),
                        "isnull" => Expr::IsNull(a),
                        "max" => Expr::Max(a),
                        "min" => Expr::Min(a),
                        "first" => Expr::First(a),
                        "last" => Expr::Last(a),
                        "sum" => Expr::Sum(a),
                        "avg" => Expr::Avg(a),
                        "count" => Expr::Count(a),
                        "count-distinct" => Expr::CountDistinct(a),
                        o => panic!("bad unary {o}"),
                    })
                }
                (_, 3) => {
                    let a = add_t(&l[1], out);
                    let b = add_t(&l[2], out);
                    out.add(match op {
                        "+" => Expr::Add([a, b]),
                        "-" => Expr::Sub([a, b]),
                        "*" => Expr::Mul([a, b]),
                        "/" => Expr::Div([a, b]),
                        "%" => Expr::Mod([a, b]),
                        "||" => Expr::StringConcat([a, b]),
                        "like" => Expr::Like([a, b]),
                        "=" => Expr::Eq([a, b]),
                        "<>" => Expr::NotEq([a, b]),
                        ">" => Expr::Gt([a, b]),
                        "<" => Expr::Lt([a, b]),
                        ">=" => Expr::GtEq([a, b]),
                        "<=" => Expr::LtEq([a, b]),
                        "and" => Expr::And([a, b]),
                        "or" => Expr::Or([a, b]),
                        "xor" => Expr::Xor([a, b]),
                        "repeat" => Expr::Repeat([a, b]),
                        o => panic!("bad binary {o}"),
                    })
                }
                (_, 4) => {
                    let a = add_t(&l[1], out);
                    let b = add_t(&l[2], out);
                    let c = add_t(&l[3], out);
                    out.add(match op {
                        "if" => Expr::If([a, b, c]),
                        "substring" => Expr::Substring([a, b, c]),
                        "replace" => Expr::Replace([a, b, c]),
                        o => panic!("bad ternary {o}"),
                    })
                }
                (o, k) => panic!("bad texpr {o}/{k}"),
            }
        }
    }
}

fn add_list(es: &[Sexp], out: &mut RecExpr) -> Id {
    let ids: Vec<Id> = es.iter().map(|e| add_t(e, out)).collect();
    out.add(Expr::List(ids.into()))
}

fn add_p(p: &Sexp, out: &mut RecExpr) -> Id {
    let l = p.as_list().unwrap();
    match l[0].as_atom().unwrap() {
        "values" => {
            let rows: Vec<Id> = l[1..].iter().map(|r| add_list(&r.as_list().unwrap()[1..], out)).collect();
            out.add(Expr::Values(rows.into()))
        }
        "proj" => {
            let es = add_list(&l[1].as_list().unwrap()[1..], out);
            let c = add_p(&l[2], out);
            out.add(Expr::Proj([es, c]))
        }
        "filter" => {
            let t = out.add(Expr::Constant(DataValue::Bool(true)));
            let c = add_p(&l[1], out);
            out.add(Expr::Filter([t, c]))
        }
        "join" => {
            let k = out.add(if l[1].as_atom().unwrap() == "semi" { Expr::Semi } else { Expr::Inner });
            let t = out.add(Expr::Constant(DataValue::Bool(true)));
            let a = add_p(&l[2], out);
            let b = add_p(&l[3], out);
            out.add(Expr::Join([k, t, a, b]))
        }
        "hashagg" => {
            let ks = add_list(&l[1].as_list().unwrap()[1..], out);
            let as_ = add_list(&l[2].as_list().unwrap()[1..], out);
            let c = add_p(&l[3], out);
            out.add(Expr::HashAgg([ks, as_, c]))
        }
        o => panic!("bad plan {o}"),
    }
}

fn static_type(expr: &RecExpr) -> String {
    let r = catch(|| {
        let mut egraph = egg::EGraph::<Expr, TypeSchemaAnalysis>::default();
        let id = egraph.add_expr(expr);
        egraph[id].data.type_.clone()
    });
    match r {
        Err(_) => "panic".into(),
        Ok(Err(_)) => "err".into(),
        Ok(Ok(DataType::Struct(ts))) => format!("ok ({})", ts.iter().map(dt_name).collect::<Vec<_>>().join(" ")),
        Ok(Ok(t)) => format!("ok {}", dt_name(&t)),
    }
}

// ---------------------------------------------------------------------------------------------
// INSERT scenarios
// ---------------------------------------------------------------------------------------------

fn sql_ty(t: &str) -> &'static str {
    match t {
        "BOOLEAN" => "boolean",
        "SMALLINT" => "smallint",
        "INT" => "int",
        "BIGINT" => "bigint",
        "STRING" => "varchar",
        o => panic!("bad column type {o}"),
    }
}

/// `null|notnull|pk` or `(opts o*)`: the column options as SQL text, in the order written.
fn decl_options(d: &Sexp) -> String {
    let word = |o: &str| match o { "null" => " null", "notnull" => " not null", "unique" => " unique", "pk" => " primary key", _ => "" };
    match d {
        Sexp::Atom(a) => (if a == "null" { "" } else { word(a) }).to_string(),
        Sexp::List(l) => l[1..].iter().map(|o| word(o.as_atom().unwrap())).collect::<String>(),
    }
}

/// Position of a column in the table-level `PRIMARY KEY (…)` list: the pseudo option `k<n>`.
fn key_pos(d: &Sexp) -> Option<usize> {
    match d {
        Sexp::List(l) => l[1..].iter().filter_map(|o| o.as_atom().and_then(|a| a.strip_prefix('k')).and_then(|n| n.parse().ok())).next(),
        _ => None,
    }
}

/// `c0 int not null, c1 varchar, primary key (c1, c0)` from `(TY n)` / `(TY (opts o* [k<n>]))` decls.
fn column_defs(ds: &[Sexp]) -> String {
    let mut defs: Vec<String> = vec![];
    let mut key: Vec<(usize, usize)> = vec![];
    for (i, d) in ds.iter().enumerate() {
        let d = d.as_list().unwrap();
        defs.push(format!("c{i} {}{}", sql_ty(d[0].as_atom().unwrap()), decl_options(&d[1])));
        if let Some(k) = key_pos(&d[1]) {
            key.push((k, i));
        }
    }
    key.sort();
    if !key.is_empty() {
        defs.push(format!("primary key ({})", key.iter().map(|(_, i)| format!("c{i}")).collect::<Vec<_>>().join(", ")));
    }
    defs.join(", ")
}

/// `(ddlt (decls …))`: the flags CREATE TABLE catalogues for every column of a table with a
/// table-level key (memory engine); `ddltre`: on a disk database, after shutdown + reopen.
fn run_ddlt(rt: &tokio::runtime::Runtime, l: &[Sexp], reopen: Option<(&str, usize)>) -> String {
    let sql = format!("create table t({})", column_defs(&l[1].as_list().unwrap()[1..]));
    let dir = reopen.map(|(wd, k)| std::path::Path::new(wd).join(format!("db{k}")));
    if let Some(d) = &dir {
        let _ = std::fs::remove_dir_all(d);
    }
    let flags = |db: &Database| -> String {
        catalog_flags(db, "t").split(',').map(|c| c.rsplit(':').next().unwrap_or("?").to_string()).collect::<Vec<_>>().join(" ")
    };
    let r = catch(|| {
        rt.block_on(async {
            match (&dir, reopen) {
                (Some(d), Some((_, k))) => {
                    let (db, need_shutdown) = open_db("diskre", d, k).await;
                    db.run(&sql).await.map_err(|e| e.to_string())?;
                    if need_shutdown {
                        db.shutdown().await.ok();
                    }
                    drop(db);
                    let (db, need_shutdown) = open_db("diskre", d, k).await;
                    let ans = format!("ok {}", flags(&db));
                    if need_shutdown {
                        db.shutdown().await.ok();
                    }
                    Ok::<_, String>(ans)
                }
                _ => {
                    let db = Database::new_in_memory();
                    db.run(&sql).await.map_err(|e| e.to_string())?;
                    Ok::<_, String>(format!("ok {}", flags(&db)))
                }
            }
        })
    });
    if let Some(d) = &dir {
        let _ = std::fs::remove_dir_all(d);
    }
    match r {
        Err(p) => format!("panic {}", p.chars().take(60).collect::<String>()),
        Ok(Err(_)) => "err".into(),
        Ok(Ok(s)) => s,
    }
}

/// The catalogued constraint flags of every column of `table`: `n<0|1>p<0|1>` per column.
fn catalog_flags(db: &Database, table: &str) -> String {
    let cat = db.verif_catalog();
    match cat.get_table_by_name(table) {
        None => "no-table".into(),
        Some(t) => {
            let mut cols: Vec<_> = t.all_columns().into_iter().collect();
            cols.sort_by_key(|(id, _)| *id);
            cols.iter()
                .map(|(_, c)| format!("{}:n{}p{}", dt_name(&c.data_type()), c.is_nullable() as u8, c.is_primary() as u8))
                .collect::<Vec<_>>()
                .join(",")
        }
    }
}

/// `(ddl TY (opts o*))`: what CREATE TABLE catalogues for the column (memory engine);
/// `(ddlre TY (opts o*))`: the same on a disk database, read back after shutdown + reopen.
fn run_ddl(rt: &tokio::runtime::Runtime, l: &[Sexp], reopen: Option<(&str, usize)>) -> String {
    let sql = format!("create table t(c0 {}{})", sql_ty(l[1].as_atom().unwrap()), decl_options(&l[2]));
    let dir = reopen.map(|(wd, k)| std::path::Path::new(wd).join(format!("db{k}")));
    if let Some(d) = &dir {
        let _ = std::fs::remove_dir_all(d);
    }
    let r = catch(|| {
        rt.block_on(async {
            let db = match (&dir, reopen) {
                (Some(d), Some((_, k))) => {
                    let (db, need_shutdown) = open_db("diskre", d, k).await;
                    db.run(&sql).await.map_err(|e| e.to_string())?;
                    if need_shutdown {
                        db.shutdown().await.ok();
                    }
                    drop(db);
                    let (db, need_shutdown) = open_db("diskre", d, k).await;
                    let cat = db.verif_catalog();
                    let t = cat.get_table_by_name("t").ok_or("no table after reopen")?;
                    let c = t.get_column_by_id(0).ok_or("no column after reopen")?;
                    let ans = format!("ok nullable={} primary={}", c.is_nullable(), c.is_primary());
                    if need_shutdown {
                        db.shutdown().await.ok();
                    }
                    return Ok::<_, String>(ans);
                }
                _ => {
                    let db = Database::new_in_memory();
                    db.run(&sql).await.map_err(|e| e.to_string())?;
                    db
                }
            };
            let cat = db.verif_catalog();
            let t = cat.get_table_by_name("t").ok_or("no table")?;
            let c = t.get_column_by_id(0).ok_or("no column")?;
            Ok::<_, String>(format!("ok nullable={} primary={}", c.is_nullable(), c.is_primary()))
        })
    });
    if let Some(d) = &dir {
        let _ = std::fs::remove_dir_all(d);
    }
    match r {
        Err(p) => format!("panic {}", p.chars().take(60).collect::<String>()),
        Ok(Err(_)) => "err".into(),
        Ok(Ok(s)) => s,
    }
}

fn sql_val(v: &str) -> String {
    if v == "null" {
        return "NULL".into();
    }
    let (tag, rest) = v.split_once(':').unwrap();
    match tag {
        "b" => rest.to_string(),
        "i16" | "i32" | "i64" => rest.to_string(),
        "s" => format!("'{}'", String::from_utf8(unhex(rest).unwrap()).unwrap()),
        "d" => {
            let d: i64 = rest.parse().unwrap();
            format!("{}{}.{}", if d < 0 { "-" } else { "" }, d.abs() / 10, d.abs() % 10)
        }
        o => panic!("bad value tag {o}"),
    }
}

fn show_val(v: &DataValue) -> String {
    match v {
        DataValue::String(s) => format!("s:{}", hex(s.as_bytes())),
        other => canon_value(other),
    }
}

/// Returns the database and whether `shutdown` must be called. Most on-disk scenarios use the
/// hook without background tasks (the stock `new_on_disk` + `shutdown` pair costs ~1 s of timer
/// waits per database); every 60th request index uses the stock constructor.
async fn open_db(engine: &str, dir: &std::path::Path, k: usize) -> (Database, bool) {
    if engine == "disk" || engine == "diskre" {
        let mut o = SecondaryStorageOptions::default_for_cli();
        o.path = dir.to_path_buf();
        if k % 60 == 0 {
            (Database::new_on_disk(o).await, true)
        } else {
            (Database::verif_new_on_disk_nobg(o).await.expect("open"), false)
        }
    } else {
        (Database::new_in_memory(), false)
    }
}

fn run_ins(rt: &tokio::runtime::Runtime, l: &[Sexp], workdir: &str, k: usize) -> String {
    let kind = l[0].as_atom().unwrap().to_string();
    let engine = l[1].as_atom().unwrap().to_string();
    // ins: decls rows | inscols: decls cols rows | inssel: src decls rows
    let (src_decls, decls, cols, rows): (Option<&[Sexp]>, &[Sexp], Option<&[Sexp]>, &[Sexp]) = match kind.as_str() {
        "inscols" => (None, &l[2].as_list().unwrap()[1..], Some(&l[3].as_list().unwrap()[1..]), &l[4].as_list().unwrap()[1..]),
        "inssel" => (Some(&l[2].as_list().unwrap()[1..]), &l[3].as_list().unwrap()[1..], None, &l[4].as_list().unwrap()[1..]),
        // selcast: src <TY> rows — `decls` is unused (the query is a SELECT CAST over `s`)
        "selcast" => (Some(&l[2].as_list().unwrap()[1..]), &l[2].as_list().unwrap()[1..], None, &l[4].as_list().unwrap()[1..]),
        _ => (None, &l[2].as_list().unwrap()[1..], None, &l[3].as_list().unwrap()[1..]),
    };
    let coldefs = |ds: &[Sexp]| -> String { column_defs(ds) };
    let dir = std::path::Path::new(workdir).join(format!("db{k}"));
    let _ = std::fs::remove_dir_all(&dir);
    let r = catch(|| {
        rt.block_on(async {
            let (mut db, mut need_shutdown) = open_db(&engine, &dir, k).await;
            db.run(&format!("create table t({})", coldefs(decls))).await.map_err(|e| format!("create: {e}"))?;
            let mut failed = 0;
            if let Some(sd) = src_decls {
                db.run(&format!("create table s({})", coldefs(sd))).await.map_err(|e| format!("create s: {e}"))?;
            }
            // `diskre`: shutdown + reopen between the CREATE TABLEs and the INSERTs; the catalogued
            // column types and constraint flags must be the same afterwards
            let mut reopen_note = String::new();
            if engine == "diskre" {
                let before = format!("t[{}] s[{}]", catalog_flags(&db, "t"), catalog_flags(&db, "s"));
                if need_shutdown {
                    db.shutdown().await.ok();
                }
                drop(db);
                (db, need_shutdown) = open_db(&engine, &dir, k).await;
                let after = format!("t[{}] s[{}]", catalog_flags(&db, "t"), catalog_flags(&db, "s"));
                reopen_note = if before == after { " reopen=same".to_string() } else { format!(" reopen=changed:{}->{}", before.replace(' ', "_"), after.replace(' ', "_")) };
            }
            let target = if src_decls.is_some() {
                "s".to_string()
            } else if let Some(cs) = cols {
                format!("t({})", cs.iter().map(|c| format!("c{}", c.as_atom().unwrap())).collect::<Vec<_>>().join(", "))
            } else {
                "t".to_string()
            };
            if kind == "insm" {
                // ONE statement with all rows
                let tuples: Vec<String> = rows.iter().map(|row| format!("({})", row.as_list().unwrap().iter().map(|v| sql_val(v.as_atom().unwrap())).collect::<Vec<_>>().join(", "))).collect();
                if db.run(&format!("insert into {target} values {}", tuples.join(", "))).await.is_err() {
                    failed += 1;
                }
            } else {
            for row in rows {
                let vals: Vec<String> = row.as_list().unwrap().iter().map(|v| sql_val(v.as_atom().unwrap())).collect();
                let sql = format!("insert into {target} values ({})", vals.join(", "));
                if db.run(&sql).await.is_err() {
                    failed += 1;
                }
            }
            }
            if kind != "selcast" && src_decls.is_some() && db.run("insert into t select * from s").await.is_err() {
                failed += 1000;
            }
            let query = if kind == "selcast" {
                format!("select cast(c0 as {}) from s", sql_ty(l[3].as_atom().unwrap()))
            } else {
                "select * from t".to_string()
            };
            let out = match db.run(&query).await {
                Ok(o) => o,
                Err(_) if kind == "selcast" => return Ok("ok ERR ;; variants=() failed=0".to_string()),
                Err(e) => return Err(format!("select: {e}")),
            };
            let mut rows_out: Vec<String> = vec![];
            let mut variants: Vec<&'static str> = vec![];
            for chunk in out.last().map(|c| c.data_chunks().to_vec()).unwrap_or_default() {
                variants = chunk.arrays().iter().map(variant_name).collect();
                for i in 0..chunk.cardinality() {
                    let vs: Vec<String> = chunk.arrays().iter().map(|a| show_val(&a.get(i))).collect();
                    rows_out.push(format!("({})", vs.join(" ")));
                }
            }
            if need_shutdown {
                db.shutdown().await.ok();
            }
            rows_out.sort();
            Ok::<_, String>(format!("ok {} ;; variants=({}) failed={}{}", rows_out.join(" "), variants.join(" "), failed, reopen_note))
        })
    });
    let _ = std::fs::remove_dir_all(&dir);
    match r {
        Err(p) => format!("panic {p}"),
        Ok(Err(e)) => format!("harness-error {e}"),
        Ok(Ok(s)) => s,
    }
}

// ---------------------------------------------------------------------------------------------
// SQL: static type of the executed plan vs runtime array variants
// ---------------------------------------------------------------------------------------------

const SQL_SETUP: &[&str] = &[
    "create table t(b boolean, s smallint, i int not null, l bigint, v varchar, f double, m decimal(10,2), d date)",
    "insert into t values (true, 1, 10, 100, 'a', 1.5, 2.25, date '2020-01-02'), (false, 2, 20, 200, 'b', 2.5, 3.5, date '2021-03-04'), (NULL, NULL, 30, NULL, NULL, NULL, NULL, NULL)",
    "create table u(i int, w varchar)",
    "insert into u values (10, 'x'), (20, 'y'), (40, NULL)",
];

fn run_sql_types(rt: &tokio::runtime::Runtime, db: &Database, sql: &str) -> String {
    let r = catch(|| {
        rt.block_on(async {
            let plans = db.verif_bind(sql).map_err(|e| format!("bind-err {e}"))?;
            let plan = plans.last().ok_or("no plan")?.clone();
            let optimizer = db.verif_optimizer().await.map_err(|e| format!("opt-err {e}"))?;
            let type_of = |p: &RecExpr| -> String {
                let mut egraph = egg::EGraph::new(TypeSchemaAnalysis { catalog: db.verif_catalog() });
                let id = egraph.add_expr(p);
                match &egraph[id].data.type_ {
                    Ok(DataType::Struct(ts)) => format!("({})", ts.iter().map(dt_name).collect::<Vec<_>>().join(" ")),
                    Ok(t) => format!("non-struct:{}", dt_name(t)),
                    Err(e) => format!("type-err:{e}"),
                }
            };
            let bound_ty = type_of(&plan);
            let optimized = optimizer.optimize(plan);
            let opt_ty = type_of(&optimized);
            let chunks = db.run(sql).await.map_err(|e| format!("run-err {e}"))?;
            let last = chunks.last().ok_or("no result")?;
            let mut runtime = String::from("none");
            let mut arity_ok = true;
            for c in last.data_chunks() {
                let v = format!("({})", c.arrays().iter().map(variant_name).collect::<Vec<_>>().join(" "));
                if runtime != "none" && runtime != v {
                    arity_ok = false;
                }
                runtime = v;
            }
            Ok::<_, String>(format!("bound={bound_ty} optimized={opt_ty} runtime={runtime} uniform={arity_ok}"))
        })
    });
    match r {
        Err(p) => format!("panic {}", p.chars().take(80).collect::<String>()),
        Ok(Err(e)) => format!("rejected {}", e.chars().take(60).collect::<String>()),
        Ok(Ok(s)) => s,
    }
}

// ---------------------------------------------------------------------------------------------
// generators
// ---------------------------------------------------------------------------------------------

const TYPES: &[&str] = &["NULL", "BOOLEAN", "SMALLINT", "INT", "INT", "BIGINT", "DOUBLE", "DECIMAL", "DATE", "INTERVAL", "STRING", "STRING", "BLOB", "TIMESTAMP"];

fn gen_t(r: &mut Rng, depth: u32) -> String {
    if depth == 0 || r.chance(1, 4) {
        if r.chance(1, 40) {
            return "bad".into();
        }
        return format!("(leaf {})", r.pick(TYPES));
    }
    let d = depth - 1;
    match r.below(20) {
        0 | 1 | 2 | 3 => format!("({} {} {})", r.pick(&["+", "-", "*", "/", "%"]), gen_t(r, d), gen_t(r, d)),
        4 | 5 | 6 => format!("({} {} {})", r.pick(&["=", "<>", ">", "<", ">=", "<="]), gen_t(r, d), gen_t(r, d)),
        7 | 8 => format!("({} {} {})", r.pick(&["and", "or", "xor"]), gen_t(r, d), gen_t(r, d)),
        9 => format!("(if {} {} {})", gen_t(r, d), gen_t(r, d), gen_t(r, d)),
        10 => {
            let k = 1 + r.below(3);
            let items: Vec<String> = (0..k).map(|_| gen_t(r, d.min(1))).collect();
            format!("(in {} (list {}))", gen_t(r, d), items.join(" "))
        }
        11 => format!("({} {})", r.pick(&["neg", "not", "isnull", "extract"]), gen_t(r, d)),
        12 => format!("(cast {} {})", r.pick(&TYPES[1..]), gen_t(r, d)),
        13 => format!("({} {} {})", r.pick(&["||", "like", "repeat"]), gen_t(r, d), gen_t(r, d)),
        14 => format!("({} {} {} {})", r.pick(&["substring", "replace"]), gen_t(r, d), gen_t(r, d), gen_t(r, d)),
        15 | 16 => format!("({} {})", r.pick(&["max", "min", "first", "last", "sum", "avg", "count", "count-distinct"]), gen_t(r, d)),
        17 => "rowcount".into(),
        _ => format!("(leaf {})", r.pick(TYPES)),
    }
}

fn gen_p(r: &mut Rng, depth: u32) -> String {
    let k = 1 + r.below(3) as usize;
    if depth == 0 || r.chance(1, 3) {
        // values: rows of leaves, mostly union-compatible
        let base: Vec<&str> = (0..k).map(|_| *r.pick(TYPES)).collect();
        let nrows = 1 + r.below(3);
        let rows: Vec<String> = (0..nrows)
            .map(|_| {
                let es: Vec<String> = base.iter().map(|t| if r.chance(3, 4) { format!("(leaf {t})") } else { format!("(leaf {})", r.pick(TYPES)) }).collect();
                format!("(row {})", es.join(" "))
            })
            .collect();
        return format!("(values {})", rows.join(" "));
    }
    let d = depth - 1;
    match r.below(4) {
        0 => {
            let es: Vec<String> = (0..k).map(|_| gen_t(r, 2)).collect();
            format!("(proj (list {}) {})", es.join(" "), gen_p(r, d))
        }
        1 => format!("(filter {})", gen_p(r, d)),
        2 => format!("(join {} {} {})", r.pick(&["inner", "semi", "inner"]), gen_p(r, d), gen_p(r, d)),
        _ => {
            let ks: Vec<String> = (0..r.below(3)).map(|_| gen_t(r, 1)).collect();
            let as_: Vec<String> = (0..1 + r.below(2)).map(|_| format!("({} {})", r.pick(&["sum", "count", "max", "min"]), gen_t(r, 1))).collect();
            format!("(hashagg (list {}) (list {}) {})", ks.join(" "), as_.join(" "), gen_p(r, d))
        }
    }
}

/// A number at or next to the range limits of integer column type `t`, on BOTH sides, or far
/// outside, or small (the INSERT conversion must be lossless or fail for each of them).
fn boundary_num(r: &mut Rng, t: &str) -> i64 {
    let (lo, hi): (i64, i64) = match t {
        "SMALLINT" => (i16::MIN as i64, i16::MAX as i64),
        "INT" => (i32::MIN as i64, i32::MAX as i64),
        _ => (i64::MIN + 2, i64::MAX - 1),
    };
    match r.below(14) {
        0 => lo - 1,
        1 => lo,
        2 => lo + 1,
        3 => hi - 1,
        4 => hi,
        5 => hi + 1,
        6 => (lo / 2).saturating_mul(3).saturating_sub(7).max(i64::MIN + 2), // far below
        7 => (hi / 2).saturating_mul(3).saturating_add(7).min(i64::MAX - 1), // far above
        8 => -1,
        9 => 0,
        _ => *r.pick(&[1i64, 2, 5, 7, 100, -5, -100]),
    }
}

fn int_tag(x: i64) -> String {
    if x >= i32::MIN as i64 && x <= i32::MAX as i64 { format!("i32:{x}") } else { format!("i64:{x}") }
}

/// A value offered to an integer column of type `t`: integer literal, decimal literal or string,
/// boundary-heavy on both sides of `t`'s (and of the narrower types') range.
fn narrowing_val(r: &mut Rng, t: &str) -> String {
    // the limits of `t` itself or of a narrower type (still interesting for a wider column)
    let around = match t { "SMALLINT" => "SMALLINT", "INT" => *r.pick(&["INT", "INT", "SMALLINT"]), _ => *r.pick(&["BIGINT", "INT", "INT", "SMALLINT"]) };
    let x = boundary_num(r, around);
    match r.below(8) {
        0 | 1 => format!("s:{}", hex(x.to_string().as_bytes())),
        2 => {
            // decimal literal with one fractional digit; keep |x| small enough for tenths in i64
            let x = x.clamp(-900_000_000_000_000_000, 900_000_000_000_000_000);
            format!("d:{}", x * 10 + if r.chance(1, 3) { *r.pick(&[5i64, 9]) * x.signum().max(0) } else { 0 })
        }
        _ => int_tag(x),
    }
}

fn gen_ins(r: &mut Rng) -> String {
    let ncols = 1 + r.below(4) as usize;
    let tys: Vec<&str> = (0..ncols).map(|_| *r.pick(&["INT", "INT", "SMALLINT", "BIGINT", "BOOLEAN", "STRING", "STRING"])).collect();
    let mut pk_used = false;
    let mut opt_texts: Vec<String> = tys
        .iter()
        .map(|t| {
            if r.chance(2, 5) {
                // column options as a list, any order, repeated / contradicting ones too
                let k = 1 + r.below(3);
                let mut os: Vec<&str> = vec![];
                for _ in 0..k {
                    let o = *r.pick(&["null", "notnull", "notnull", "unique", "pk"]);
                    if o == "pk" && (pk_used || *t == "BOOLEAN") { os.push("unique"); } else { if o == "pk" { pk_used = true; } os.push(o); }
                }
                return format!("(opts {})", os.join(" "));
            }
            let n = match r.below(5) {
                0 | 1 => "notnull",
                2 if !pk_used && *t != "BOOLEAN" => { pk_used = true; "pk" }
                _ => "null",
            };
            n.to_string()
        })
        .collect();
    // a table-level PRIMARY KEY (c.., c..) over 1–3 columns in any order (never together with an
    // inline key: the binder rejects that)
    if !pk_used && r.chance(1, 2) {
        let tys_s: Vec<String> = tys.iter().map(|t| t.to_string()).collect();
        add_table_key(r, &tys_s, &mut opt_texts);
    }
    let decls: Vec<String> = tys.iter().zip(&opt_texts).map(|(t, o)| format!("({t} {o})")).collect();
    let nrows = 1 + r.below(5);
    let key = key_columns(&opt_texts);
    let tys_s: Vec<String> = tys.iter().map(|t| t.to_string()).collect();
    let all: Vec<usize> = (0..ncols).collect();
    // NULL into each key column position (rows that convert otherwise)
    let key_rows = if key.is_empty() { vec![] } else { key_null_rows(r, &tys_s, &tys_s, &all, &key) };
    let mut rows: Vec<String> = (0..nrows)
        .map(|_| {
            let vs: Vec<String> = tys
                .iter()
                .map(|t| {
                    // mostly a value of the declared type, sometimes another type (implicit cast)
                    let src = if r.chance(7, 10) { *t } else { *r.pick(&["INT", "BIGINT", "BOOLEAN", "STRING", "DEC", "NULL"]) };
                    if r.chance(1, 5) {
                        return "null".to_string();
                    }
                    if ["SMALLINT", "INT", "BIGINT"].contains(t) && r.chance(1, 2) {
                        return narrowing_val(r, t);
                    }
                    match src {
                        "BOOLEAN" => format!("b:{}", r.chance(1, 2)),
                        "STRING" => {
                            if *t == "STRING" { format!("s:{}", hex(r.pick(&["", "a", "xy", "12", "true"]).as_bytes())) }
                            else { format!("s:{}", hex(r.pick(&["12", "-5", "abc", "true", "false", "0", "70000", "3000000000", ""]).as_bytes())) }
                        }
                        "DEC" => if *t == "STRING" { "i32:7".to_string() } else { format!("d:{}", r.pick(&[27i64, 5, 10, 19, 400005, 0, 23])) },
                        "NULL" => "null".to_string(),
                        "BIGINT" => format!("i64:{}", r.pick(&[3000000000i64, 9223372036854775807, 4294967296, 2147483648])),
                        _ => format!("i32:{}", r.pick(&[0i64, 1, 2, 5, 7, 100, 32767, 32768, 70000, 2147483647])),
                    }
                })
                .collect();
            format!("({})", vs.join(" "))
        })
        .collect();
    rows.extend(key_rows);
    // the same scenario on both engines (adjacent requests; the check also compares the pair)
    format!(
        "(ins mem (decls {d}) (rows {r}))\n(ins disk (decls {d}) (rows {r}))\n(ins diskre (decls {d}) (rows {r}))",
        d = decls.join(" "),
        r = rows.join(" ")
    )
}

fn ins_val(r: &mut Rng, t: &str) -> String {
    if r.chance(1, 5) {
        return "null".to_string();
    }
    match t {
        "BOOLEAN" => format!("b:{}", r.chance(1, 2)),
        "STRING" => format!("s:{}", hex(r.pick(&["", "a", "12", "-5", "true", "xy", "70000"]).as_bytes())),
        // integer columns: in-range values of the column type, boundary-heavy on both sides of the
        // narrower types' ranges (so that INSERT ... SELECT / CAST into a narrower column meets
        // MIN-1, MIN, MAX, MAX+1 alone and mixed with in-range values in one chunk)
        "BIGINT" => {
            let around = *r.pick(&["INT", "INT", "SMALLINT", "BIGINT"]);
            int_tag(boundary_num(r, around).clamp(i64::MIN + 2, i64::MAX - 1))
        }
        "INT" => {
            let around = *r.pick(&["SMALLINT", "INT"]);
            int_tag(boundary_num(r, around).clamp(i32::MIN as i64, i32::MAX as i64))
        }
        _ => int_tag(boundary_num(r, "SMALLINT").clamp(i16::MIN as i64, i16::MAX as i64)),
    }
}

/// rows into a one-column table `s`, then `SELECT CAST(c0 AS T) FROM s` (one chunk: boundary
/// values alone or mixed with in-range ones)
fn gen_selcast(r: &mut Rng) -> String {
    let (src, dst) = *r.pick(&[("BIGINT", "INT"), ("BIGINT", "INT"), ("BIGINT", "SMALLINT"), ("INT", "SMALLINT"), ("STRING", "INT"), ("STRING", "SMALLINT"), ("STRING", "BIGINT"), ("INT", "BIGINT"), ("SMALLINT", "INT")]);
    let n = 1 + r.below(4);
    let rows: Vec<String> = (0..n)
        .map(|_| {
            if src == "STRING" {
                format!("(s:{})", hex(boundary_num(r, dst).to_string().as_bytes()))
            } else if r.chance(1, 2) {
                // a value around the limits of the TARGET type, representable in the source type
                let (lo, hi) = match src { "SMALLINT" => (i16::MIN as i64, i16::MAX as i64), "INT" => (i32::MIN as i64, i32::MAX as i64), _ => (i64::MIN + 2, i64::MAX - 1) };
                format!("({})", int_tag(boundary_num(r, dst).clamp(lo, hi)))
            } else {
                format!("({})", ins_val(r, src))
            }
        })
        .collect();
    let rws = rows.join(" ");
    format!("(selcast mem (src ({src} null)) {dst} (rows {rws}))\n(selcast disk (src ({src} null)) {dst} (rows {rws}))")
}

/// Marks 1–3 non-BOOLEAN columns, in any order, as the table-level `PRIMARY KEY (…)`: the option
/// text of the n-th listed column gets the pseudo option `k<n>`. `opts[i]` is `null`, `notnull` or
/// `(opts …)` (no inline PRIMARY KEY among them).
fn add_table_key(r: &mut Rng, tys: &[String], opts: &mut [String]) {
    let mut cand: Vec<usize> = (0..tys.len()).filter(|&i| tys[i] != "BOOLEAN").collect();
    if cand.is_empty() {
        return;
    }
    // random order
    for i in (1..cand.len()).rev() {
        let j = r.below(i as u64 + 1) as usize;
        cand.swap(i, j);
    }
    let n = 1 + r.below(cand.len().min(3) as u64) as usize;
    for (pos, &c) in cand[..n].iter().enumerate() {
        let o = opts[c].clone();
        opts[c] = if let Some(inner) = o.strip_suffix(')') {
            format!("{inner} k{})", pos + 1)
        } else if o == "null" {
            // half of them with an explicit NULL option before the key (the key still forces NOT NULL)
            if r.chance(1, 2) { format!("(opts k{})", pos + 1) } else { format!("(opts null k{})", pos + 1) }
        } else {
            format!("(opts {o} k{})", pos + 1)
        };
    }
}

/// A value of type `src` that every modelled column type `dst` accepts.
fn safe_val(r: &mut Rng, src: &str, dst: &str) -> String {
    match src {
        "BOOLEAN" => format!("b:{}", r.chance(1, 2)),
        "STRING" => if dst == "BOOLEAN" { format!("s:{}", hex(b"true")) } else if dst == "STRING" { format!("s:{}", hex(r.pick(&["a", "xy", ""]).as_bytes())) } else { format!("s:{}", hex(r.pick(&["1", "12", "-5"]).as_bytes())) },
        "BIGINT" => format!("i64:{}", 1 + r.below(100)),
        "SMALLINT" => format!("i16:{}", 1 + r.below(100)),
        _ => format!("i32:{}", 1 + r.below(100)),
    }
}

/// The columns of the table-level key (`k<n>` in the option text), in column order.
fn key_columns(opts: &[String]) -> Vec<usize> {
    (0..opts.len()).filter(|&i| opts[i].split(|c: char| c == ' ' || c == ')').any(|w| w.len() == 2 && w.starts_with('k') && w[1..].parse::<usize>().is_ok())).collect()
}

/// Rows that convert for sure, one with NULL in each key column position and one without NULL.
fn key_null_rows(r: &mut Rng, src_tys: &[String], dst_tys: &[String], cols: &[usize], key: &[usize]) -> Vec<String> {
    let mut rows = vec![];
    for hole in key.iter().map(|&k| Some(k)).chain(std::iter::once(None)) {
        if let Some(h) = hole {
            if !cols.contains(&h) { continue; }
        }
        let vs: Vec<String> = cols.iter().map(|&c| if Some(c) == hole { "null".to_string() } else { safe_val(r, &src_tys[c], &dst_tys[c]) }).collect();
        rows.push(format!("({})", vs.join(" ")));
    }
    rows
}

fn gen_decls(r: &mut Rng, n: usize) -> Vec<(String, String)> {
    (0..n)
        .map(|_| {
            let t = *r.pick(&["INT", "INT", "SMALLINT", "BIGINT", "BOOLEAN", "STRING"]);
            let nn = *r.pick(&["null", "null", "notnull"]);
            (t.to_string(), nn.to_string())
        })
        .collect()
}

/// ONE `INSERT INTO t VALUES (r1), (r2), …` whose literal types DIFFER per row within a column: INT then
/// DECIMAL, BOOLEAN then INT, NULL first then a value, narrower first / wider first, strings next to
/// numbers — for every target column type.
fn gen_insm(r: &mut Rng) -> String {
    let ncols = 1 + r.below(2) as usize;
    let tys: Vec<&str> = (0..ncols).map(|_| *r.pick(&["INT", "SMALLINT", "BIGINT", "BOOLEAN", "STRING"])).collect();
    let decls: Vec<String> = tys.iter().map(|t| format!("({t} {})", r.pick(&["null", "null", "notnull"]))).collect();
    // per column a family of literal kinds (0 NULL, 1 BOOLEAN, 2 INT, 3 BIGINT literal, 4 DECIMAL, 5 string)
    let fams: Vec<Vec<u64>> = tys.iter().map(|t| match r.below(8) {
        0 => vec![2, 4], 1 => vec![1, 2], 2 => vec![0, 2], 3 => vec![2, 3], 4 => vec![0, 2, 4], 5 => vec![1, 2, 4],
        6 => if *t == "STRING" { vec![1, 2, 5] } else { vec![2, 5] },
        _ => vec![0, 1, 2, 3],
    }.into_iter().filter(|k| !(*t == "STRING" && *k == 4)).collect()).collect();
    let nrows = 2 + r.below(3) as usize;
    let rows: Vec<String> = (0..nrows).map(|_| {
        let vs: Vec<String> = fams.iter().zip(&tys).map(|(f, t)| match *r.pick(f) {
            0 => "null".to_string(),
            1 => format!("b:{}", r.chance(1, 2)),
            2 => format!("i32:{}", r.pick(&[0i64, 1, 2, 5, 7, 100, 20])),
            3 => if *t == "BIGINT" || *t == "STRING" { format!("i64:{}", r.pick(&[3000000000i64, 4294967296])) } else { format!("i32:{}", r.pick(&[3i64, 9])) },
            4 => format!("d:{}", r.pick(&[25i64, 5, 2075, 10, 70])),
            _ => format!("s:{}", hex(r.pick(&["12", "7", "true", "a"]).as_bytes())),
        }).collect();
        format!("({})", vs.join(" "))
    }).collect();
    let d = decls.join(" ");
    let rws = rows.join(" ");
    format!("(insm mem (decls {d}) (rows {rws}))\n(insm disk (decls {d}) (rows {rws}))\n(insm diskre (decls {d}) (rows {rws}))")
}

/// `INSERT INTO t(subset of columns) VALUES (...)`
fn gen_inscols(r: &mut Rng) -> String {
    let n = 2 + r.below(3) as usize;
    let mut decls = gen_decls(r, n);
    if r.chance(2, 5) {
        let tys: Vec<String> = decls.iter().map(|d| d.0.clone()).collect();
        let mut os: Vec<String> = decls.iter().map(|d| d.1.clone()).collect();
        add_table_key(r, &tys, &mut os);
        for (d, o) in decls.iter_mut().zip(os) { d.1 = o; }
    }
    let mut cols: Vec<usize> = (0..n).filter(|_| r.chance(1, 2)).collect();
    if cols.is_empty() {
        cols.push(0);
    }
    if r.chance(1, 3) {
        cols.reverse();
    }
    let mut rows: Vec<String> = (0..1 + r.below(3))
        .map(|_| format!("({})", cols.iter().map(|&c| { let t = decls[c].0.clone(); ins_val(r, &t) }).collect::<Vec<_>>().join(" ")))
        .collect();
    // table-level key: NULL into each listed key column (explicit), and a row without NULL (a key column
    // left out of the column list is NULL by omission)
    let key = key_columns(&decls.iter().map(|d| d.1.clone()).collect::<Vec<_>>());
    if !key.is_empty() {
        let tys: Vec<String> = decls.iter().map(|d| d.0.clone()).collect();
        rows.extend(key_null_rows(r, &tys, &tys, &cols, &key));
    }
    let d = decls.iter().map(|(t, n)| format!("({t} {n})")).collect::<Vec<_>>().join(" ");
    let c = cols.iter().map(|c| c.to_string()).collect::<Vec<_>>().join(" ");
    let rws = rows.join(" ");
    format!("(inscols mem (decls {d}) (cols {c}) (rows {rws}))\n(inscols disk (decls {d}) (cols {c}) (rows {rws}))\n(inscols diskre (decls {d}) (cols {c}) (rows {rws}))")
}

/// rows into `s`, then `INSERT INTO t SELECT * FROM s` (column types may differ: implicit casts)
fn gen_inssel(r: &mut Rng) -> String {
    let n = 1 + r.below(3) as usize;
    let src = gen_decls(r, n);
    let mut decls: Vec<(String, String)> = src
        .iter()
        .map(|(t, _)| {
            let t2 = if r.chance(3, 5) { t.clone() } else { (*r.pick(&["INT", "SMALLINT", "BIGINT", "BOOLEAN", "STRING"])).to_string() };
            (t2, (*r.pick(&["null", "null", "notnull"])).to_string())
        })
        .collect();
    if r.chance(2, 5) {
        let tys: Vec<String> = decls.iter().map(|d| d.0.clone()).collect();
        let mut os: Vec<String> = decls.iter().map(|d| d.1.clone()).collect();
        add_table_key(r, &tys, &mut os);
        for (d, o) in decls.iter_mut().zip(os) { d.1 = o; }
    }
    let mut src = src;
    let mut rows: Vec<String> = (0..1 + r.below(4))
        .map(|_| format!("({})", src.iter().map(|(t, _)| ins_val(r, t)).collect::<Vec<_>>().join(" ")))
        .collect();
    // table-level key on `t`: half of the scenarios carry only rows that convert, with NULL from the
    // SELECT source in ONE key column position (INSERT … SELECT is one statement: it must fail)
    let key = key_columns(&decls.iter().map(|d| d.1.clone()).collect::<Vec<_>>());
    if !key.is_empty() && r.chance(1, 2) {
        let hole = key[r.below(key.len() as u64) as usize];
        src[hole].1 = "null".to_string();
        let st: Vec<String> = src.iter().map(|d| d.0.clone()).collect();
        let dt: Vec<String> = decls.iter().map(|d| d.0.clone()).collect();
        let all: Vec<usize> = (0..n).collect();
        rows = key_null_rows(r, &st, &dt, &all, &[hole]);
    }
    let s_ = src.iter().map(|(t, n)| format!("({t} {n})")).collect::<Vec<_>>().join(" ");
    let d = decls.iter().map(|(t, n)| format!("({t} {n})")).collect::<Vec<_>>().join(" ");
    let rws = rows.join(" ");
    format!("(inssel mem (src {s_}) (decls {d}) (rows {rws}))\n(inssel disk (src {s_}) (decls {d}) (rows {rws}))\n(inssel diskre (src {s_}) (decls {d}) (rows {rws}))")
}

fn gen_sql(r: &mut Rng) -> String {
    fn e(r: &mut Rng, ty: &str, depth: u32) -> String {
        let col = |ty: &str| match ty { "bool" => "b", "i16" => "s", "i32" => "i", "i64" => "l", "str" => "v", "f64" => "f", "dec" => "m", _ => "d" }.to_string();
        if depth == 0 || r.chance(1, 3) {
            if r.chance(3, 4) { return col(ty); }
            return match ty {
                "bool" => "true".into(), "i16" => "cast(3 as smallint)".into(), "i32" => "7".into(), "i64" => "3000000000".into(),
                "str" => "'k'".into(), "f64" => "cast(1.5 as double)".into(), "dec" => "1.25".into(), _ => "date '2022-02-02'".into(),
            };
        }
        let d = depth - 1;
        match ty {
            "bool" => match r.below(6) {
                0 | 1 => { let t = *r.pick(&["i16", "i32", "i64", "f64", "dec"]); let t2 = *r.pick(&["i16", "i32", "i64", "f64", "dec"]);
                    format!("({} {} {})", e(r, t, d), r.pick(&["=", "<>", "<", ">", "<=", ">="]), e(r, t2, d)) }
                2 => format!("({} {} {})", e(r, "bool", d), r.pick(&["and", "or"]), e(r, "bool", d)),
                3 => format!("(not {})", e(r, "bool", d)),
                4 => { let t = *r.pick(&["i32", "str", "bool", "d", "dec"]); format!("({} is null)", e(r, t, d)) }
                _ => format!("({} = {})", e(r, "str", d), e(r, "str", d)),
            },
            "str" => match r.below(3) { 0 => format!("({} || {})", e(r, "str", d), e(r, "str", d)),
                1 => { let t = *r.pick(&["i32", "i64", "bool", "i16"]); format!("cast({} as varchar)", e(r, t, d)) }
                _ => e(r, "str", 0) },
            "d" => e(r, "d", 0),
            t => match r.below(6) {
                0 | 1 | 2 => {
                    let order = ["i16", "i32", "i64", "f64", "dec"];
                    let idx = order.iter().position(|x| *x == t).unwrap_or(1);
                    let t2 = order[r.below(idx as u64 + 1) as usize];
                    let (a, b) = if r.chance(1, 2) { (t, t2) } else { (t2, t) };
                    format!("({} {} {})", e(r, a, d), r.pick(&["+", "-", "*", "/"]), e(r, b, d))
                }
                3 => format!("(case when {} then {} else {} end)", e(r, "bool", d), e(r, t, d), e(r, t, d)),
                4 => { let from = *r.pick(&["i16", "i32", "i64", "bool"]);
                    let tn = match t { "i16" => "smallint", "i32" => "int", "i64" => "bigint", "f64" => "double", _ => "decimal" };
                    format!("cast({} as {tn})", e(r, from, d)) }
                _ => e(r, t, 0),
            },
        }
    }
    let tys = ["bool", "i16", "i32", "i64", "str", "f64", "dec", "d"];
    match r.below(12) {
        10 | 11 => {
            // `SELECT * FROM (VALUES …)`: 2–4 rows whose literal types DIFFER per row within a column
            // (the VALUES node's type is the union over all rows; the array must be of that type)
            let ncols = 1 + r.below(2) as usize;
            let nrows = 2 + r.below(3) as usize;
            let lit = |r: &mut Rng, k: u64| -> String {
                match k {
                    0 => "NULL".into(),
                    1 => (*r.pick(&["true", "false"])).to_string(),
                    2 => r.range(-5, 100).to_string(),
                    3 => (*r.pick(&["3000000000", "4294967296", "-3000000000"])).to_string(),
                    4 => (*r.pick(&["2.5", "0.5", "20.75", "-1.25", "7.0"])).to_string(),
                    5 => (*r.pick(&["cast(1.5 as double)", "cast(0.25 as double)", "cast(100 as double)"])).to_string(),
                    _ => (*r.pick(&["'a'", "'12'", "'true'"])).to_string(),
                }
            };
            // per column a family of union-compatible literal kinds, in random order per row
            let fams: Vec<Vec<u64>> = (0..ncols).map(|_| match r.below(7) {
                0 => vec![2, 4], 1 => vec![2, 5], 2 => vec![1, 2], 3 => vec![0, 2, 4], 4 => vec![2, 3], 5 => vec![2, 3, 4, 5], _ => vec![0, 1, 2, 6],
            }).collect();
            let rows: Vec<String> = (0..nrows).map(|_| {
                let vs: Vec<String> = fams.iter().map(|f| { let k = *r.pick(f); lit(r, k) }).collect();
                format!("({})", vs.join(", "))
            }).collect();
            format!("select * from (values {})", rows.join(", "))
        }
        0..=4 => {
            let k = 1 + r.below(3);
            let items: Vec<String> = (0..k).map(|_| { let t = *r.pick(&tys); e(r, t, 2) }).collect();
            let wh = if r.chance(1, 3) { format!(" where {}", e(r, "bool", 1)) } else { String::new() };
            format!("select {} from t{wh}", items.join(", "))
        }
        5 | 6 => {
            let aggs: Vec<String> = (0..1 + r.below(3)).map(|_| {
                let t = *r.pick(&["i16", "i32", "i64", "f64", "dec"]);
                match r.below(6) { 0 => format!("sum({})", e(r, t, 1)), 1 => "count(*)".into(), 2 => format!("min({})", { let tt = *r.pick(&tys); e(r, tt, 1) }),
                    3 => format!("max({})", { let tt = *r.pick(&tys); e(r, tt, 1) }), 4 => format!("count({})", { let tt = *r.pick(&tys); e(r, tt, 1) }), _ => format!("avg({})", e(r, t, 1)) }
            }).collect();
            if r.chance(1, 2) {
                let g = *r.pick(&["b", "s", "v", "d"]);
                format!("select {g}, {} from t group by {g}", aggs.join(", "))
            } else {
                format!("select {} from t", aggs.join(", "))
            }
        }
        7 => format!("select t.i, u.w, {} from t join u on t.i = u.i", { let tt = *r.pick(&tys); e(r, tt, 1) }),
        8 => format!("select t.l, u.w from t left join u on t.i = u.i"),
        _ => format!("select {}, {} from t order by i limit 2", { let tt = *r.pick(&tys); e(r, tt, 1) }, { let tt = *r.pick(&tys); e(r, tt, 1) }),
    }
}

fn main() {
    let args: Vec<String> = std::env::args().collect();
    match args[1].as_str() {
        "gen" => {
            let n: usize = args[2].parse().unwrap();
            let mut r = Rng::from_env();
            let mut out = String::new();
            // every list of column options up to length 3 (a finite fold in the binder)
            let opts = ["null", "notnull", "unique", "pk"];
            let mut lists: Vec<Vec<&str>> = vec![vec![]];
            for a in opts { lists.push(vec![a]); for b in opts { lists.push(vec![a, b]); for c in opts { lists.push(vec![a, b, c]); } } }
            for l in &lists {
                let ty = *r.pick(&["INT", "STRING", "BOOLEAN", "BIGINT"]);
                out += &format!("(ddl {ty} (opts {}))\n", l.join(" "));
                // the same on a disk database, read back after shutdown + reopen
                out += &format!("(ddlre {ty} (opts {}))\n", l.join(" "));
            }
            // whole tables with a table-level PRIMARY KEY: every ordered choice of 1–3 key columns out of
            // 1–3 columns, three draws of column options each (an inline PRIMARY KEY among them: bind error)
            for ncols in 1..=3usize {
                let mut keys: Vec<Vec<usize>> = vec![];
                for a in 0..ncols {
                    keys.push(vec![a]);
                    for b in 0..ncols {
                        if b == a { continue; }
                        keys.push(vec![a, b]);
                        for c in 0..ncols {
                            if c == a || c == b { continue; }
                            keys.push(vec![a, b, c]);
                        }
                    }
                }
                for key in &keys {
                    for _ in 0..3 {
                        let decls: Vec<String> = (0..ncols)
                            .map(|i| {
                                let ty = *r.pick(&["INT", "STRING", "BIGINT", "SMALLINT"]);
                                let mut os: Vec<String> = (0..r.below(3)).map(|_| r.pick(&["null", "notnull", "unique", "null", "notnull", "unique", "pk"]).to_string()).collect();
                                if let Some(pos) = key.iter().position(|&k| k == i) {
                                    let at = r.below(os.len() as u64 + 1) as usize;
                                    os.insert(at, format!("k{}", pos + 1));
                                }
                                format!("({ty} (opts {}))", os.join(" "))
                            })
                            .collect();
                        out += &format!("(ddlt (decls {}))\n", decls.join(" "));
                        out += &format!("(ddltre (decls {}))\n", decls.join(" "));
                    }
                }
            }
            for _ in 0..n {
                let line = match r.below(22) {
                    0..=11 => { let d = 1 + r.below(4) as u32; format!("(type {})", gen_t(&mut r, d)) }
                    12..=14 => { let d = r.below(3) as u32; format!("(ptype {})", gen_p(&mut r, d)) }
                    15 => gen_ins(&mut r),
                    16 => if r.chance(1, 2) { gen_ins(&mut r) } else { gen_insm(&mut r) },
                    17 => gen_inscols(&mut r),
                    18 => gen_inssel(&mut r),
                    _ => if r.chance(1, 2) { gen_inssel(&mut r) } else { gen_selcast(&mut r) },
                };
                out += &line;
                out.push('\n');
            }
            std::fs::write(&args[3], out).unwrap();
        }
        "gensql" => {
            let n: usize = args[2].parse().unwrap();
            let mut r = Rng::new(seed_from_env() ^ 0x5151);
            let mut out = String::new();
            for _ in 0..n {
                out += &gen_sql(&mut r);
                out.push('\n');
            }
            std::fs::write(&args[3], out).unwrap();
        }
        "run" => {
            let rt = runtime();
            for (k, line) in read_lines(&args[2]).iter().enumerate() {
                let req = Sexp::parse(line).expect("request");
                let l = req.as_list().unwrap();
                let ans = match l[0].as_atom().unwrap() {
                    "type" => {
                        let mut e = RecExpr::default();
                        match catch(|| { add_t(&l[1], &mut e); e }) { Ok(e) => static_type(&e), Err(p) => format!("harness-error {p}") }
                    }
                    "ptype" => {
                        let mut e = RecExpr::default();
                        match catch(|| { add_p(&l[1], &mut e); e }) { Ok(e) => static_type(&e), Err(p) => format!("harness-error {p}") }
                    }
                    "ddl" => run_ddl(&rt, l, None),
                    "ddlt" => run_ddlt(&rt, l, None),
                    "ddltre" => {
                        let wd = args.get(3).cloned().or_else(|| std::env::var("C16_WORK").ok()).expect("workdir");
                        run_ddlt(&rt, l, Some((&wd, k)))
                    }
                    "ddlre" => {
                        let wd = args.get(3).cloned().or_else(|| std::env::var("C16_WORK").ok()).expect("workdir");
                        run_ddl(&rt, l, Some((&wd, k)))
                    }
                    "ins" | "insm" | "inscols" | "inssel" | "selcast" => {
                        let wd = args.get(3).cloned().or_else(|| std::env::var("C16_WORK").ok()).expect("workdir");
                        run_ins(&rt, l, &wd, k)
                    }
                    o => format!("harness-error unknown request {o}"),
                };
                println!("{ans}");
            }
        }
        "runsql" => {
            let rt = runtime();
            let db = Database::new_in_memory();
            for s in SQL_SETUP {
                rt.block_on(db.run(s)).expect("setup");
            }
            for line in read_lines(&args[2]) {
                println!("{}", run_sql_types(&rt, &db, &line));
            }
        }
        _ => panic!("usage"),
    }
}
