//! C15 harness — fault propagation through the operator tasks (hook H4 in `Builder::spawn`).
//!
//! `c15 gen <n> <out>`      writes `n` generated cases (one per line, s-expression).
//! `c15 run <cases> <out>`  for every case: builds the database (mem or disk), runs the statement
//!                          once with a recorder (no fault) to learn the executed plan (spawn
//!                          order = post-order, arity by node name, per-node items), then once
//!                          per fault (node, k, kind), each on a fresh database, and writes
//!                            M <case> <fault-id> (fault (plan …) (f node k kind))     model request
//!                            I <case> <fault-id> <class> … table …                   implementation
//!                          lines to <out>.
//! `c15 chan <n> <out>`     random action sequences on the real `async_broadcast` channel.
//! `c15 probe <sql-file>`   debugging aid.
use std::sync::{Arc, Mutex};

use rlverif::risinglight::verif::{self, Action};
use rlverif::risinglight::Database;
use rlverif::*;

// ---------------------------------------------------------------------------------------------
// recorder / injector
// ---------------------------------------------------------------------------------------------

#[derive(Default, Debug, Clone)]
struct Trace {
    base: Option<usize>,
    /// spawned operators in spawn order: (relative seq, name)
    spawned: Vec<(usize, String)>,
    /// items per relative seq: "ok:<n>" | "err"
    items: Vec<(usize, usize, String)>,
    ended: Vec<usize>,
    fired: bool,
    helper_records: usize,
    helper_chunks: usize,
    /// `vm.commit.begin` details that publish a row-set (`add:<t>:<r>`), in order
    publishes: Vec<String>,
    /// row-set directories created (`persist.rowset.mkdir`)
    mkdirs: usize,
}

const HELPER_FROM: usize = 1_000_000;
const HELPER_TO: usize = 1_000_001;

#[derive(Clone, Debug, PartialEq)]
struct Fault {
    node: usize,
    k: usize,
    kind: String, // error | panic
}

fn install(trace: Arc<Mutex<Trace>>, fault: Option<Fault>) {
    verif::install_sync(Arc::new(move |name: &str, detail: &str| {
        let mut t = trace.lock().unwrap();
        match name {
            "exec.spawn" => {
                let (seq, nm) = detail.split_once('.').unwrap();
                let seq: usize = seq.parse().unwrap();
                if t.base.is_none() {
                    t.base = Some(seq);
                }
                let rel = seq - t.base.unwrap();
                t.spawned.push((rel, nm.to_string()));
                Action::Continue
            }
            "exec.chunk" => {
                let mut it = detail.split('#');
                let tag = it.next().unwrap();
                let k: usize = it.next().unwrap().parse().unwrap();
                let what = it.next().unwrap().to_string();
                let seq: usize = tag.split_once('.').unwrap().0.parse().unwrap();
                let rel = seq - t.base.unwrap_or(seq);
                if let Some(f) = &fault {
                    if f.node == rel && f.k == k && !t.fired {
                        t.fired = true;
                        return if f.kind == "error" { Action::Error } else { Action::Panic };
                    }
                }
                t.items.push((rel, k, what));
                Action::Continue
            }
            // helper threads of COPY: node HELPER_FROM / HELPER_TO, k = record / chunk index
            "exec.copy_from.record" | "exec.copy_to.chunk" => {
                let node = if name == "exec.copy_from.record" { HELPER_FROM } else { HELPER_TO };
                let k: usize = detail.parse().unwrap_or(usize::MAX);
                if let Some(f) = &fault {
                    if f.node == node && f.k == k && !t.fired {
                        t.fired = true;
                        return if f.kind == "error" { Action::Error } else { Action::Panic };
                    }
                }
                if node == HELPER_FROM { t.helper_records += 1 } else { t.helper_chunks += 1 }
                Action::Continue
            }
            "vm.commit.begin" => {
                if detail.contains("add:") {
                    t.publishes.push(detail.to_string());
                }
                Action::Continue
            }
            "persist.rowset.mkdir" => {
                t.mkdirs += 1;
                Action::Continue
            }
            "exec.end" => {
                let tag = detail.split('#').next().unwrap();
                let seq: usize = tag.split_once('.').unwrap().0.parse().unwrap();
                let rel = seq - t.base.unwrap_or(seq);
                t.ended.push(rel);
                Action::Continue
            }
            _ => Action::Continue,
        }
    }));
}


// ---------------------------------------------------------------------------------------------
// panic counter (a panic inside an operator task never reaches the caller; count them)
// ---------------------------------------------------------------------------------------------

static PANICS: std::sync::atomic::AtomicUsize = std::sync::atomic::AtomicUsize::new(0);

fn install_panic_counter() {
    silence_panics();
    std::panic::set_hook(Box::new(|_| {
        PANICS.fetch_add(1, std::sync::atomic::Ordering::SeqCst);
    }));
}

// ---------------------------------------------------------------------------------------------
// cases
// ---------------------------------------------------------------------------------------------

#[derive(Clone, Debug)]
struct Case {
    engine: String, // mem | disk
    stmt: String,
    setup: Vec<String>,
    /// "err": the statement fails by itself (a real evaluation error) and must return Err
    expect: String,
}

fn gen_val(r: &mut Rng) -> String {
    // (on disk the scan order of row-sets varies from run to run, and grouped SUM over NULLs
    // depends on row order in this code base — keep disk data NULL-free so that the fault-free
    // answer is well defined)
    if NULLS.load(std::sync::atomic::Ordering::Relaxed) && r.chance(1, 8) {
        "NULL".into()
    } else {
        format!("{}", r.range(-2, 6))
    }
}

static NULLS: std::sync::atomic::AtomicBool = std::sync::atomic::AtomicBool::new(true);

fn gen_rows(r: &mut Rng, lo: i64, hi: i64) -> String {
    let n = r.range(lo, hi);
    (0..n)
        .map(|_| format!("({},{})", gen_val(r), gen_val(r)))
        .collect::<Vec<_>>()
        .join(",")
}

fn gen_case(r: &mut Rng, i: usize) -> Case {
    // disk cases are slower (fresh directory per fault): one in five
    // 3/5 memory, 1/5 disk with several row-sets per table (scan order not reproducible: class
    // only), 1/5 disk with ONE row-set per table (deterministic: full comparison)
    // every other multi-row-set disk case uses tiny row-sets (`diskt`: target_rowset_size = 1, a
    // multi-chunk INSERT … SELECT rolls a row-set over per chunk, before any fault at chunk k)
    let engine = if i % 5 == 4 && (i / 5) % 2 == 0 { "diskt" } else if i % 5 >= 3 { "disk" } else { "mem" };
    let single = i % 5 == 3;
    // every sixth case: a scan of 20+ one-row chunks, so that item indices beyond the capacity
    // (16) of the operator output channel exist (faults at k = 15..18 hit a full / just drained channel)
    let long = engine == "mem" && i % 6 == 2;
    NULLS.store(engine == "mem" || single, std::sync::atomic::Ordering::Relaxed);
    // (on disk a primary key makes the planner pick merge join / sort aggregation over scans
    // whose row-set order is not reproducible: keep disk tables key-less)
    let pk = engine == "mem" && r.chance(1, 3);
    let mut setup = vec![
        if pk {
            "create table t(a int primary key, b int)".to_string()
        } else {
            "create table t(a int, b int)".to_string()
        },
        String::new(),
    ];
    let upk = engine == "mem" && r.chance(1, 3);
    setup[1] = if upk {
        "create table u(x int primary key, y int)".to_string()
    } else {
        "create table u(x int, y int)".to_string()
    };
    let nt = if single { 1 } else if long { r.range(20, 22) } else { r.range(1, 4) };
    let mut next_key = 0;
    for _ in 0..nt {
        if pk {
            // distinct non-null keys
            let n = if long { 1 } else { r.range(1, 4) };
            let rows = (0..n)
                .map(|_| {
                    next_key += 1;
                    format!("({},{})", next_key, gen_val(r))
                })
                .collect::<Vec<_>>()
                .join(",");
            setup.push(format!("insert into t values {rows}"));
        } else {
            setup.push(format!("insert into t values {}", if single { gen_rows(r, 3, 7) } else if long { gen_rows(r, 1, 1) } else { gen_rows(r, 1, 4) }));
        }
    }
    let mut next_ukey = 0;
    for _ in 0..(if single { 1 } else { r.range(1, 3) }) {
        if upk {
            let n = r.range(1, 3);
            let rows = (0..n)
                .map(|_| {
                    next_ukey += r.range(1, 2);
                    format!("({},{})", next_ukey, gen_val(r))
                })
                .collect::<Vec<_>>()
                .join(",");
            setup.push(format!("insert into u values {rows}"));
        } else {
            setup.push(format!("insert into u values {}", gen_rows(r, 1, 3)));
        }
    }
    let c = r.range(-1, 4);
    // boundary-heavy LIMIT: half of the time exactly the row count of the first chunk(s) of t
    let mut cum = vec![];
    let mut acc = 0i64;
    for st in setup.iter().filter(|s| s.starts_with("insert into t")) {
        acc += st.matches('(').count() as i64;
        cum.push(acc);
    }
    let off = r.range(0, 3);
    let lim = if r.chance(1, 2) && !cum.is_empty() { (*r.pick(&cum) - off).max(0) } else { r.range(0, 5) };
    let cmp = *r.pick(&[">", "<", ">=", "<>", "="]);
    let templates: Vec<String> = vec![
        format!("select a, b from t where a {cmp} {c}"),
        format!("select a + 1, b from t"),
        format!("select sum(a), count(b) from t"),
        format!("select sum(b) from t where a {cmp} {c}"),
        format!("select b, count(*) from t group by b"),
        format!("select a, y from t join u on a = x"),
        format!("select a, y from t left join u on a = x where b {cmp} {c}"),
        format!("select a, x from t join u on a < x"),
        format!("select a, b from t order by a, b"),
        format!("select a, b from t order by b desc, a limit {lim}"),
        format!("select a from t limit {lim} offset {off}"),
        format!("select a from t where b {cmp} {c} limit {lim}"),
        format!("select x, sum(b) from t join u on a = x where b {cmp} {c} group by x order by x limit {}", lim + 1),
        format!("select a from t where a in (select x from u)"),
        format!("select a, row_number() over (order by a) from t"),
        format!("insert into u select a, b from t where a {cmp} {c}"),
        format!("insert into u select a, b from t"),
        format!("insert into u values {}", gen_rows(r, 1, 3)),
        format!("insert into u select a, sum(b) from t group by a"),
        format!("insert into t select x + 100, y from u"),
        format!("delete from t where a {cmp} {c}"),
        format!("delete from t"),
        format!("delete from u where x in (select a from t where b {cmp} {c})"),
    ];
    let stmt = if engine == "diskt" {
        // DML only: what matters here is what a failed statement leaves behind
        let dml: Vec<&String> = templates.iter().filter(|t| t.starts_with("insert") || t.starts_with("delete")).collect();
        (*r.pick(&dml)).clone()
    } else if engine == "disk" {
        // on disk: DML and blocking queries (row order of scans over several row-sets is not
        // defined, so no bare LIMIT)
        let pickable: Vec<&String> = templates
            .iter()
            .filter(|t| single || ((!t.contains(" limit ") || t.contains("order by")) && !t.contains(" over (")))
            .collect();
        (*r.pick(&pickable)).clone()
    } else {
        r.pick(&templates).clone()
    };
    // wrappers are operators too: EXPLAIN ANALYZE around a sample of the statements, COPY (query) TO
    // (not around LIMIT: the row counters of producers a limit stopped reading are schedule-dependent)
    let stmt = if r.chance(1, 5) && !stmt.contains(" limit ") {
        format!("explain analyze {stmt}")
    } else if stmt.starts_with("select") && r.chance(1, 8) {
        format!("copy ({stmt}) to '$DIR/q{i}.csv'")
    } else {
        stmt
    };
    Case { engine: engine.into(), stmt, setup, expect: String::new() }
}

fn case_line(c: &Case) -> String {
    format!("{}\t{}\t{}\t{}", c.engine, c.stmt, c.setup.join(";"), c.expect)
}

fn parse_case(l: &str) -> Case {
    let f: Vec<&str> = l.split('\t').collect();
    Case {
        engine: f[0].into(),
        stmt: f[1].into(),
        setup: f[2].split(';').map(|s| s.to_string()).collect(),
        expect: f.get(3).map(|s| s.trim().to_string()).unwrap_or_default(),
    }
}

// ---------------------------------------------------------------------------------------------
// running
// ---------------------------------------------------------------------------------------------

struct Ctx {
    rt: tokio::runtime::Runtime,
    work: String,
    n_dirs: usize,
}

fn build_db(ctx: &mut Ctx, case: &Case) -> Result<(Database, Option<String>), String> {
    let (db, dir) = if case.engine.starts_with("disk") {
        ctx.n_dirs += 1;
        let dir = format!("{}/db{}", ctx.work, ctx.n_dirs);
        let _ = std::fs::remove_dir_all(&dir);
        let mut opt = rlverif::risinglight::storage::SecondaryStorageOptions::default_for_cli();
        opt.path = std::path::PathBuf::from(&dir);
        if case.engine == "diskt" {
            // tiny row-sets: every non-empty chunk a statement appends rolls the memtable over
            opt.target_rowset_size = 1;
        }
        let db = catch(|| ctx.rt.block_on(Database::verif_new_on_disk_nobg(opt)))
            .map_err(|p| format!("open panicked: {p}"))?
            .map_err(|e| format!("open failed: {e}"))?;
        (db, Some(dir))
    } else {
        (Database::new_in_memory(), None)
    };
    for s in &case.setup {
        // `CSV <name> <rows> <bad row | -> <unparsable|short|overflow|->`: writes $DIR/<name>.csv with
        // rows `i,<i % 7>` (or `i,<i % 7> hours` for kind overflow / interval), one bad record
        if let Some(spec) = s.strip_prefix("CSV ") {
            let f: Vec<&str> = spec.split(' ').collect();
            let (name, n, bad, kind) = (f[0], f[1].parse::<usize>().unwrap(), f[2].parse::<usize>().ok(), f[3]);
            let interval = f.get(4).map(|x| *x == "interval").unwrap_or(false);
            let mut text = String::new();
            for i in 0..n {
                if Some(i) == bad {
                    text += match kind {
                        "unparsable" => "abc,1\n",
                        "short" => "5\n",
                        "overflow" => "7,3000000 hours\n",
                        _ => "0,0\n",
                    };
                } else if interval {
                    text += &format!("{i},{} hours\n", i % 7);
                } else {
                    text += &format!("{i},{}\n", i % 7);
                }
            }
            std::fs::create_dir_all(&ctx.work).unwrap();
            std::fs::write(format!("{}/{name}.csv", ctx.work), text).unwrap();
            continue;
        }
        let s = &s.replace("$DIR", &ctx.work);
        match run_sql(&ctx.rt, &db, s) {
            Outcome::Ok(_) => {}
            o => return Err(format!("setup `{s}` failed: {o:?}")),
        }
    }
    Ok((db, dir))
}

fn tables(ctx: &Ctx, db: &Database) -> Vec<Vec<Vec<String>>> {
    ["select a, b from t", "select x, y from u"]
        .iter()
        .map(|q| match run_sql(&ctx.rt, db, q) {
            Outcome::Ok(mut rows) => {
                rows.sort();
                rows
            }
            o => vec![vec![format!("{o:?}")]],
        })
        .collect()
}

/// Plan operators in post-order (= spawn order): (name, number of plan children, params).
fn plan_postorder(s: &Sexp, out: &mut Vec<(String, usize, Vec<String>)>) {
    let Some(l) = s.as_list() else { return };
    let Some(h) = l.first().and_then(|x| x.as_atom()) else { return };
    let n = l.len();
    let (kids, params): (Vec<&Sexp>, Vec<String>) = match h {
        "scan" | "values" | "empty" | "copy_from" => (vec![], vec![]),
        "proj" | "filter" | "order" | "agg" | "hashagg" | "sortagg" | "window" | "insert"
        | "delete" | "analyze" | "copy_to" => (vec![&l[n - 1]], vec![]),
        "limit" => (vec![&l[3]], vec![l[1].to_string(), l[2].to_string()]),
        "topn" => (vec![&l[4]], vec![l[1].to_string(), l[2].to_string()]),
        "join" | "hashjoin" | "mergejoin" => (vec![&l[n - 2], &l[n - 1]], vec![l[1].to_string()]),
        _ => (vec![], vec![]),
    };
    for k in &kids {
        plan_postorder(k, out);
    }
    out.push((h.to_string(), kids.len(), params));
}

fn op_kind(name: &str) -> &'static str {
    match name {
        "scan" | "values" | "copy_from" => "leaf",
        "proj" | "filter" | "window" => "stream",
        "order" | "agg" | "hashagg" | "sortagg" | "topn" | "copy_to" | "analyze" => "block",
        "limit" => "limit",
        "join" | "hashjoin" => "join",
        "mergejoin" => "mjoin",
        "insert" | "delete" => "dml",
        _ => "other",
    }
}

#[derive(Clone, Debug)]
struct Node {
    id: usize,
    name: String,
    kids: Vec<usize>,
    params: Vec<String>,
    outs: Vec<usize>,
    err: bool,
    ended: bool,
}

/// Renders the model request for the statement with `fault` armed.
fn model_tree(nodes: &[Node], i: usize, fault: &Option<Fault>) -> String {
    let n = &nodes[i];
    let ft = match fault {
        Some(f) if f.node == n.id => format!("({} {})", f.kind, f.k),
        _ => "none".to_string(),
    };
    let outs = format!(
        "(outs{})",
        n.outs.iter().map(|c| format!(" {c}")).collect::<String>()
    );
    let kid = |j: usize| model_tree(nodes, n.kids[j], fault);
    match op_kind(&n.name) {
        "leaf" => format!("(leaf {} {ft} {outs} {})", n.id, if n.err { "err" } else { "end" }),
        "stream" => format!(
            "(stream {} {ft} {outs} {} {})",
            n.id,
            if n.err { n.outs.len().to_string() } else { "none".into() },
            kid(0)
        ),
        // (a DML node below a wrapper such as EXPLAIN ANALYZE: consumes everything, one count row)
        "block" | "dml" => format!(
            "(block {} {ft} {} {outs} {} {})",
            n.id,
            nodes[n.kids[0]].outs.len(),
            if n.err { 1 } else { 0 },
            kid(0)
        ),
        "limit" => {
            let lim = n.params[0].parse::<usize>().unwrap_or(usize::MAX / 2);
            let off = n.params[1].parse::<usize>().unwrap_or(0);
            format!("(limit {} {ft} {lim} {off} {})", n.id, kid(0))
        }
        k @ ("join" | "mjoin") => format!(
            "({k} {} {ft} {} {} {outs} {} {})",
            n.id,
            nodes[n.kids[0]].outs.len(),
            nodes[n.kids[1]].outs.len(),
            kid(0),
            kid(1)
        ),
        _ => "unsupported".to_string(),
    }
}

fn model_request(nodes: &[Node], fault: &Option<Fault>) -> String {
    let root = nodes.len() - 1;
    let r = &nodes[root];
    if op_kind(&r.name) == "dml" {
        let ft = match fault {
            Some(f) if f.node == r.id => format!("({} {})", f.kind, f.k),
            _ => "none".to_string(),
        };
        format!("(dml {} {ft} {})", r.id, model_tree(nodes, r.kids[0], fault))
    } else {
        format!("(query {})", model_tree(nodes, root, fault))
    }
}

struct RunOut {
    outcome: Outcome,
    trace: Trace,
    panics: usize,
    tables: Vec<Vec<Vec<String>>>,
    /// the tables after closing and reopening the directory (disk engines)
    reopened: Option<Vec<Vec<Vec<String>>>>,
}

fn run_with(ctx: &mut Ctx, case: &Case, fault: Option<Fault>) -> Result<(RunOut, Vec<Vec<Vec<String>>>), String> {
    let (db, dir) = build_db(ctx, case)?;
    let pre = tables(ctx, &db);
    let tr = Arc::new(Mutex::new(Trace::default()));
    install(tr.clone(), fault);
    let p0 = PANICS.load(std::sync::atomic::Ordering::SeqCst);
    let outcome = run_sql(&ctx.rt, &db, &case.stmt.replace("$DIR", &ctx.work));
    verif::clear();
    // EXPLAIN ANALYZE prints wall-clock times next to the row counts: drop them, keep the counts
    let outcome = match outcome {
        Outcome::Ok(_) if case.stmt.to_lowercase().starts_with("explain analyze") && case.stmt.contains(" limit ") => {
            Outcome::Ok(vec![vec!["s:".to_string()]])
        }
        Outcome::Ok(rows) if case.stmt.to_lowercase().starts_with("explain analyze") => Outcome::Ok(
            rows.into_iter()
                .map(|r| {
                    r.into_iter()
                        .map(|c| match c.strip_prefix("s:").and_then(unhex).and_then(|b| String::from_utf8(b).ok()) {
                            Some(text) => {
                                let mut out = String::new();
                                for (i, part) in text.split("time: ").enumerate() {
                                    if i == 0 {
                                        out += part;
                                    } else {
                                        let rest = part.find([' ', ',', '}']).map(|p| &part[p..]).unwrap_or("");
                                        out += "time: _";
                                        out += rest;
                                    }
                                }
                                format!("s:{}", hex(out.as_bytes()))
                            }
                            None => c,
                        })
                        .collect()
                })
                .collect(),
        ),
        o => o,
    };
    let panics = PANICS.load(std::sync::atomic::Ordering::SeqCst) - p0;
    let post = tables(ctx, &db);
    let trace = tr.lock().unwrap().clone();
    drop(db);
    let mut reopened = None;
    if let Some(d) = dir {
        // what a later session sees: reopen the directory (same options)
        let mut opt = rlverif::risinglight::storage::SecondaryStorageOptions::default_for_cli();
        opt.path = std::path::PathBuf::from(&d);
        if case.engine == "diskt" {
            opt.target_rowset_size = 1;
        }
        reopened = Some(match catch(|| ctx.rt.block_on(Database::verif_new_on_disk_nobg(opt))) {
            Ok(Ok(db2)) => tables(ctx, &db2),
            _ => vec![vec![vec!["REOPEN-FAILED".to_string()]]],
        });
        let _ = std::fs::remove_dir_all(d);
    }
    Ok((RunOut { outcome, trace, panics, tables: post, reopened }, pre))
}

fn bag_eq(a: &[Vec<String>], b: &[Vec<String>]) -> bool {
    let mut x = a.to_vec();
    let mut y = b.to_vec();
    x.sort();
    y.sort();
    x == y
}

fn same_answer(a: &Outcome, b: &Outcome) -> bool {
    match (a, b) {
        (Outcome::Ok(x), Outcome::Ok(y)) => bag_eq(x, y),
        _ => a.class() == b.class(),
    }
}

fn total_rows(t: &[Vec<Vec<String>>]) -> i64 {
    t.iter().map(|x| x.len() as i64).sum()
}

fn run_case(ctx: &mut Ctx, cid: usize, case: &Case, thorough: bool, out: &mut Vec<serde_json::Value>) {
    use serde_json::json;
    // deterministic scan order: memory engine, or on disk at most one row-set per table
    let det = case.engine == "mem"
        || (case.setup.iter().filter(|s| s.starts_with("insert into t")).count() <= 1
            && case.setup.iter().filter(|s| s.starts_with("insert into u")).count() <= 1);
    let base = json!({"case": cid, "engine": case.engine, "stmt": case.stmt, "setup": case.setup, "det": det});
    let mut rec = |extra: serde_json::Value| {
        let mut o = base.clone();
        for (k, v) in extra.as_object().unwrap() {
            o[k] = v.clone();
        }
        out.push(o);
    };
    // 1. fault-free run with the recorder
    let (nf, pre) = match run_with(ctx, case, None) {
        Ok(x) => x,
        Err(e) => {
            rec(json!({"type": "skip", "why": e}));
            return;
        }
    };
    // determinism guard: the fault-free answer must be reproducible on a fresh database
    match run_with(ctx, case, None) {
        Ok((nf2, _)) if same_answer(&nf2.outcome, &nf.outcome) && nf2.tables == nf.tables => {}
        _ => {
            rec(json!({"type": "skip", "why": "fault-free answer not reproducible"}));
            return;
        }
    }
    // the plan, to label nodes (names must agree with what was spawned)
    let mut ops = vec![];
    {
        let (db, dir) = build_db(ctx, case).unwrap();
        let plan = catch(|| {
            let bound = db.verif_bind(&case.stmt.replace("$DIR", &ctx.work)).ok()?;
            let opt = ctx.rt.block_on(db.verif_optimizer()).ok()?;
            Some(opt.optimize(bound.last()?.clone()))
        });
        if let Ok(Some(plan)) = plan {
            if let Ok(sx) = Sexp::parse(&plan.to_string()) {
                plan_postorder(&sx, &mut ops);
            }
        }
        drop(db);
        if let Some(d) = dir {
            let _ = std::fs::remove_dir_all(d);
        }
    }
    let spawned = &nf.trace.spawned;
    let names_ok = ops.len() == spawned.len()
        && ops.iter().zip(spawned.iter()).all(|(o, s)| o.0 == s.1)
        && ops.iter().all(|o| op_kind(&o.0) != "other");
    let nofault_class = nf.outcome.class();
    // (a statement that is expected to fail by itself is judged on that alone, whatever it returned)
    if !names_ok || nofault_class != "ok" || nf.panics > 0 || !case.expect.is_empty() {
        // statements that fail (or whose operator panics) by themselves: only the model-free
        // oracle applies — a statement in which an operator task panicked must not return Ok.
        rec(json!({"type": "nofault-only", "class": nofault_class, "panics": nf.panics, "expect": case.expect,
            "names_ok": names_ok,
            "spawned": spawned.iter().map(|s| s.1.clone()).collect::<Vec<_>>(),
            "not_ended": spawned.iter().filter(|s| !nf.trace.ended.contains(&s.0)).map(|s| s.1.clone()).collect::<Vec<_>>(),
            "publishes": nf.trace.publishes,
            "tables_eq_pre": nf.tables == pre && nf.reopened.as_ref().map(|r| *r == pre).unwrap_or(true)}));
        return;
    }
    // 2. tree from postfix order
    let mut nodes: Vec<Node> = vec![];
    let mut stack: Vec<usize> = vec![];
    for (i, (name, arity, params)) in ops.iter().enumerate() {
        let mut kids = vec![];
        for _ in 0..*arity {
            kids.push(stack.pop().unwrap());
        }
        kids.reverse();
        let items: Vec<&(usize, usize, String)> = nf.trace.items.iter().filter(|x| x.0 == i).collect();
        let outs = items.iter().filter_map(|x| x.2.strip_prefix("ok:").map(|c| c.parse().unwrap())).collect();
        let err = items.iter().any(|x| x.2 == "err");
        nodes.push(Node { id: i, name: name.clone(), kids, params: params.clone(), outs, err, ended: nf.trace.ended.contains(&i) });
        stack.push(i);
    }
    let nf_rows = match &nf.outcome { Outcome::Ok(r) => r.clone(), _ => vec![] };
    // the DML node may sit below a wrapper (EXPLAIN ANALYZE INSERT …)
    let dml_idx = nodes.iter().position(|n| op_kind(&n.name) == "dml");
    let is_dml = dml_idx.is_some();
    let root_is_dml = op_kind(&nodes[nodes.len() - 1].name) == "dml";
    rec(json!({"type": "nofault", "model_req": model_request(&nodes, &None),
        "nrows": nf_rows.len(), "dml": is_dml,
        "ops": nodes.iter().map(|n| n.name.clone()).collect::<Vec<_>>(),
        "outs": nodes.iter().map(|n| n.outs.clone()).collect::<Vec<_>>(),
        "mkdirs": nf.trace.mkdirs, "publishes": nf.trace.publishes,
        // per node: [label of its parent operator (join type included), which child it is]
        "parents": nodes.iter().map(|n| {
            match nodes.iter().find(|p| p.kids.contains(&n.id)) {
                Some(p) => {
                    let label = if op_kind(&p.name) == "join" || op_kind(&p.name) == "mjoin" { format!("{}:{}", p.name, p.params.first().cloned().unwrap_or_default()) } else { p.name.clone() };
                    json!([label, p.kids.iter().position(|k| *k == n.id).unwrap()])
                }
                None => json!(["root", 0]),
            }
        }).collect::<Vec<_>>(),
        "tables_eq_pre": nf.tables == pre, "delta": (total_rows(&nf.tables) - total_rows(&pre)).abs()}));
    // 3. faults
    let mut faults: Vec<Fault> = vec![];
    for n in &nodes {
        let len = n.outs.len() + if n.err { 1 } else { 0 };
        // 15..18: around the capacity of the operator output channel (16)
        let mut ks: Vec<usize> = if thorough { (0..=len).collect() } else { vec![0, 1, 2, 15, 16, 17, 18, len.saturating_sub(1), len] };
        ks.sort();
        ks.dedup();
        for k in ks {
            if k > len {
                continue;
            }
            for kind in ["error", "panic"] {
                faults.push(Fault { node: n.id, k, kind: kind.into() });
            }
        }
    }
    for f in faults {
        let (fr, pre2) = match run_with(ctx, case, Some(f.clone())) {
            Ok(x) => x,
            Err(e) => {
                rec(json!({"type": "skip", "why": e}));
                continue;
            }
        };
        let (class, rows) = match &fr.outcome {
            Outcome::Ok(r) => ("ok", r.clone()),
            Outcome::Err(_) => ("err", vec![]),
            Outcome::Panic(_) => ("panic", vec![]),
        };
        let count_value = if root_is_dml && rows.len() == 1 { rows[0].first().cloned() } else { None };
        rec(json!({"type": "fault", "node": f.node, "op": nodes[f.node].name, "opkind": op_kind(&nodes[f.node].name),
            "k": f.k, "kind": f.kind, "fired": fr.trace.fired,
            // "root": the fault sits at the DML node or above it, i.e. after the commit
            "root": match dml_idx { Some(d) => f.node >= d, None => f.node == nodes.len() - 1 }, "dml": is_dml,
            "model_req": model_request(&nodes, &Some(f.clone())),
            "class": class, "nrows": rows.len(), "rows_eq": class == "ok" && bag_eq(&rows, &nf_rows),
            "rows_prefix": class == "ok" && rows.len() <= nf_rows.len() && rows[..] == nf_rows[..rows.len()],
            "count_value": count_value, "panics": fr.panics,
            "err_text": match &fr.outcome { Outcome::Err(e) => e.clone(), Outcome::Panic(e) => e.clone(), _ => String::new() },
            "tables_eq_pre": fr.tables == pre2, "tables_eq_post": fr.tables == nf.tables,
            "reopen_eq_pre": fr.reopened.as_ref().map(|r| *r == pre2), "reopen_eq_now": fr.reopened.as_ref().map(|r| *r == fr.tables),
            "mkdirs": fr.trace.mkdirs, "publishes": fr.trace.publishes,
            // row counts of the chunks the DML root's child sent in this run (what was appended)
            "consumed": if let Some(d) = dml_idx { let c = nodes[d].kids[0];
                fr.trace.items.iter().filter(|x| x.0 == c).filter_map(|x| x.2.strip_prefix("ok:").and_then(|n| n.parse::<usize>().ok())).collect::<Vec<_>>() } else { vec![] },
            "delta": (total_rows(&fr.tables) - total_rows(&pre2)).abs(),
            "pre_same": pre2 == pre}));
    }
    // faults inside the helper threads of COPY (blocking CSV reader / writer): the statement must
    // return Err and commit nothing
    let helpers: Vec<(usize, &str, usize)> = vec![
        (HELPER_FROM, "copy_from", nf.trace.helper_records),
        (HELPER_TO, "copy_to", nf.trace.helper_chunks),
    ];
    for (node, hname, n) in helpers {
        if n == 0 {
            continue;
        }
        let mut ks = vec![0, 1, n / 2, 1024 + 3, n - 1];
        ks.retain(|k| *k < n);
        ks.sort();
        ks.dedup();
        for k in ks {
            for kind in ["error", "panic"] {
                let f = Fault { node, k, kind: kind.into() };
                let Ok((fr, pre2)) = run_with(ctx, case, Some(f)) else { continue };
                // the model sees it as the leaf (reader) / the root (writer) failing by itself
                // after the chunks completed before record k
                let model_req = if node == HELPER_FROM {
                    let leaf = nodes.iter().position(|x| x.name == "copy_from");
                    leaf.map(|li| {
                        let mut ns = nodes.clone();
                        let done = k / 1024;
                        ns[li].outs.truncate(done);
                        ns[li].err = true;
                        model_request(&ns, &None)
                    })
                } else {
                    None
                };
                rec(json!({"type": "helper-fault", "helper": hname, "k": k, "kind": kind, "fired": fr.trace.fired,
                    "class": fr.outcome.class(), "panics": fr.panics, "model_req": model_req,
                    "tables_eq_pre": fr.tables == pre2 && fr.reopened.as_ref().map(|r| *r == pre2).unwrap_or(true), "dml": is_dml,
                    "publishes": fr.trace.publishes,
                    "err_text": match &fr.outcome { Outcome::Err(e) | Outcome::Panic(e) => e.chars().take(120).collect::<String>(), _ => String::new() }}));
            }
        }
    }
}

// ---------------------------------------------------------------------------------------------
// the real channel
// ---------------------------------------------------------------------------------------------

fn gen_chan(r: &mut Rng) -> String {
    let cap = *r.pick(&[1u64, 2, 3, 16]);
    let n = r.range(3, 14);
    let mut acts = vec![];
    let mut m = 0;
    // the shape `spawn` produces, with the producer running 0..3 sends early
    let early = if r.chance(1, 2) { 0 } else { r.range(1, 3) };
    for _ in 0..early {
        m += 1;
        acts.push(format!("(s {m})"));
    }
    acts.push("d".into());
    acts.push("a".into());
    for _ in 0..n {
        match r.below(10) {
            0..=4 => {
                m += 1;
                acts.push(format!("(s {m})"));
            }
            5..=7 => acts.push("r".into()),
            8 => acts.push((*r.pick(&["d", "a"])).into()),
            _ => acts.push((*r.pick(&["r", "a", "c"])).into()),
        }
    }
    for _ in 0..r.range(0, 4) {
        acts.push("r".into());
    }
    format!("(chan {cap} {})", acts.join(" "))
}

fn run_chan(line: &str) -> String {
    use rlverif::risinglight::executor::verif_broadcast as ab;
    let sx = Sexp::parse(line).unwrap();
    let l = sx.as_list().unwrap();
    let cap: usize = l[1].as_atom().unwrap().parse().unwrap();
    let (tx, rx) = ab::broadcast::<u64>(cap);
    let mut tx = Some(tx);
    let mut active: std::collections::VecDeque<ab::Receiver<u64>> = [rx].into();
    let mut inactive: Vec<ab::InactiveReceiver<u64>> = vec![];
    let mut sent = vec![];
    let mut got = vec![];
    for a in &l[2..] {
        match a {
            Sexp::List(v) => {
                let m: u64 = v[1].as_atom().unwrap().parse().unwrap();
                if let Some(t) = &tx {
                    // `broadcast().await` would block on Full / Inactive: the action is not enabled
                    if t.try_broadcast(m).is_ok() {
                        sent.push(m);
                    }
                }
            }
            Sexp::Atom(s) => match s.as_str() {
                "d" => {
                    if let Some(r) = active.pop_front() {
                        inactive.push(r.deactivate());
                    }
                }
                "a" => {
                    if let Some(i) = inactive.first() {
                        active.push_back(i.activate_cloned());
                    }
                }
                "r" => {
                    if let Some(r) = active.front_mut() {
                        if let Ok(m) = r.try_recv() {
                            got.push(m);
                        }
                    }
                }
                "c" => {
                    tx = None;
                }
                _ => {}
            },
        }
    }
    let qlen = active.front().map(|r| r.len()).or_else(|| inactive.first().map(|i| i.len()));
    let _ = qlen;
    format!(
        "sent {} got {} active {}",
        sent.iter().map(|x| x.to_string()).collect::<Vec<_>>().join(" "),
        got.iter().map(|x| x.to_string()).collect::<Vec<_>>().join(" "),
        active.len()
    )
}

fn main() {
    let args: Vec<String> = std::env::args().collect();
    match args[1].as_str() {
        "gen" => {
            let n: usize = args[2].parse().unwrap();
            let mut r = Rng::from_env();
            let mut out = String::new();
            for i in 0..n {
                out += &case_line(&gen_case(&mut r, i));
                out.push('\n');
            }
            std::fs::write(&args[3], out).unwrap();
        }
        "run" => {
            // c15 run <cases> <out.jsonl> <workdir> [thorough]
            install_panic_counter();
            let thorough = args.get(5).map(|s| s == "thorough").unwrap_or(false);
            let mut ctx = Ctx { rt: runtime(), work: args[4].clone(), n_dirs: 0 };
            std::fs::create_dir_all(&ctx.work).unwrap();
            let mut out = vec![];
            for (cid, l) in read_lines(&args[2]).iter().enumerate() {
                run_case(&mut ctx, cid, &parse_case(l), thorough, &mut out);
            }
            let text: String = out.iter().map(|v| v.to_string() + "\n").collect();
            std::fs::write(&args[3], text).unwrap();
        }
        "changen" => {
            let n: usize = args[2].parse().unwrap();
            let mut r = Rng::from_env();
            let mut out = String::new();
            // the two shapes of `Builder::spawn` first: deactivate before / after the first send
            out += "(chan 16 d a (s 1) (s 2) r r c r)\n(chan 16 (s 1) d a (s 2) r r c r)\n";
            for _ in 0..n {
                out += &gen_chan(&mut r);
                out.push('\n');
            }
            std::fs::write(&args[3], out).unwrap();
        }
        "chanrun" => {
            for l in read_lines(&args[2]) {
                println!("{}", run_chan(&l));
            }
        }
        "probe" => {
            let rt = runtime();
            let db = Database::new_in_memory();
            let text = std::fs::read_to_string(&args[2]).unwrap();
            for stmt in text.lines().filter(|l| !l.trim().is_empty()) {
                let tr = Arc::new(Mutex::new(Trace::default()));
                install(tr.clone(), None);
                let o = run_sql(&rt, &db, stmt);
                verif::clear();
                println!("{stmt}\n  -> {}", o.render(false));
                let t = tr.lock().unwrap();
                println!("  spawned {:?}\n  items {:?}\n  ended {:?}", t.spawned, t.items, t.ended);
            }
        }
        _ => panic!("usage"),
    }
}
