//! Shared by the C12 and C13 harness binaries: disk databases with tiny row-sets/blocks, layout
//! observation through the public storage API, plan extraction, and the case generator.
#![allow(dead_code)]
use rlverif::risinglight::array::{ArrayImpl, DataChunk};
use rlverif::risinglight::storage::{
    KeyRange, ScanOptions, SecondaryStorageOptions, Storage, StorageColumnRef, StorageImpl, Table,
    Transaction, TxnIterator,
};
use rlverif::risinglight::types::DataValue;
use rlverif::risinglight::Database;
use rlverif::*;
use std::ops::Bound;

pub struct Disk {
    pub rt: tokio::runtime::Runtime,
    pub db: Database,
    pub dir: String,
}

/// Opens a fresh on-disk database. `rowset_bytes` tiny (1) means: every appended chunk is flushed
/// as its own row-set and the background compactor never selects anything (a row-set is selected
/// only while the running sum of on-disk sizes stays <= target_rowset_size).
pub fn open_disk(dir: &str, block_bytes: usize, rowset_bytes: usize) -> Disk {
    open_disk_mode(dir, block_bytes, rowset_bytes, false)
}

/// `nobg`: no background compactor/vacuum tasks (hook `verif_new_on_disk_nobg`); compaction passes
/// are then driven explicitly with `compact_once`.
pub fn open_disk_mode(dir: &str, block_bytes: usize, rowset_bytes: usize, nobg: bool) -> Disk {
    let _ = std::fs::remove_dir_all(dir);
    let rt = runtime();
    let mut o = SecondaryStorageOptions::default_for_cli();
    o.path = std::path::PathBuf::from(dir);
    o.target_block_size = block_bytes;
    o.target_rowset_size = rowset_bytes;
    o.cache_size = 1024;
    let db = if nobg {
        rt.block_on(Database::verif_new_on_disk_nobg(o)).unwrap()
    } else {
        rt.block_on(Database::new_on_disk(o))
    };
    Disk { rt, db, dir: dir.to_string() }
}

impl Disk {
    pub fn sql(&self, q: &str) -> Outcome {
        run_sql(&self.rt, &self.db, q)
    }
    /// exactly one pass of the real compactor loop
    pub fn compact_once(&self) -> Result<(), String> {
        let st = self.db.verif_storage();
        let r = catch(|| {
            self.rt.block_on(async {
                let StorageImpl::SecondaryStorage(s) = st else { return Err("not disk".to_string()) };
                s.verif_compact_once().await.map_err(|e| e.to_string())
            })
        });
        match r {
            Err(p) => Err(format!("panic:{p}")),
            Ok(x) => x,
        }
    }

    pub fn close(self) {
        let Disk { rt, db, dir } = self;
        // no `shutdown()`: it waits for the compactor's 1 s tick; dropping the runtime cancels
        // the background tasks (nothing is reopened afterwards)
        drop(db);
        drop(rt);
        let _ = std::fs::remove_dir_all(dir);
    }

    /// Storage-level scan of table `t`: returns chunks of canonical rows.
    pub fn storage_scan(
        &self,
        table: &str,
        cols: &[StorageColumnRef],
        filter: Option<KeyRange>,
        sorted: bool,
    ) -> Result<Vec<Vec<Vec<String>>>, String> {
        let st = self.db.verif_storage();
        let cat = self.db.verif_catalog();
        let tid = cat.get_table_id_by_name("postgres", table).ok_or("no table")?;
        let r = catch(|| {
            self.rt.block_on(async {
                let StorageImpl::SecondaryStorage(s) = st else { return Err("not disk".to_string()) };
                let t = s.get_table(tid).map_err(|e| e.to_string())?;
                let txn = t.read().await.map_err(|e| e.to_string())?;
                let mut out = vec![];
                {
                    let mut it = txn
                        .scan(cols, ScanOptions::default().with_filter_opt(filter).with_sorted(sorted))
                        .await
                        .map_err(|e| e.to_string())?;
                    while let Some(ch) = it.next_batch(None).await.map_err(|e| e.to_string())? {
                        out.push(canon_rows(&ch));
                    }
                }
                txn.abort().await.map_err(|e| e.to_string())?;
                Ok(out)
            })
        });
        match r {
            Err(p) => Err(format!("panic:{p}")),
            Ok(x) => x,
        }
    }

    pub fn plans(&self, sql: &str) -> Result<(String, String), String> {
        let r = catch(|| {
            let bound = self.db.verif_bind(sql).map_err(|e| e.to_string())?;
            let b = bound.last().ok_or("no stmt")?.clone();
            let opt = self.rt.block_on(self.db.verif_optimizer()).map_err(|e| e.to_string())?;
            let o = opt.optimize(b.clone());
            Ok::<_, String>((b.to_string(), o.to_string()))
        });
        match r {
            Err(p) => Err(format!("panic:{p}")),
            Ok(x) => x,
        }
    }
}

pub fn _unused(_: &ArrayImpl, _: &DataChunk, _: &DataValue, _: Bound<i32>) {}

// ---------------------------------------------------------------------------------------------
// Cases
// ---------------------------------------------------------------------------------------------

#[derive(Clone, Copy, Debug, PartialEq, Eq)]
pub enum Ty {
    I32,
    I64,
    Str,
    I16,
    Bool,
    /// `char(5)`: stored and compared as a string
    Char,
}

impl Ty {
    pub fn sql(&self) -> &'static str {
        match self {
            Ty::I32 => "int",
            Ty::I64 => "bigint",
            Ty::Str => "varchar",
            Ty::I16 => "smallint",
            Ty::Bool => "boolean",
            Ty::Char => "char(5)",
        }
    }
    pub fn tag(&self) -> &'static str {
        match self {
            Ty::I32 => "i32",
            Ty::I64 => "i64",
            Ty::Str => "str",
            Ty::I16 => "i16",
            Ty::Bool => "bool",
            Ty::Char => "char",
        }
    }
    pub fn of_tag(s: &str) -> Ty {
        match s {
            "i32" => Ty::I32,
            "i64" => Ty::I64,
            "i16" => Ty::I16,
            "bool" => Ty::Bool,
            "char" => Ty::Char,
            _ => Ty::Str,
        }
    }
}

#[derive(Clone, Debug)]
pub struct ColDef {
    pub ty: Ty,
    pub nullable: bool,
}

#[derive(Clone, Copy, Debug, PartialEq, Eq)]
pub enum PkDecl {
    None,
    Col,
    Tbl,
}

#[derive(Clone, Debug)]
pub enum Op {
    Ins(Vec<Vec<DataValue>>),
    Del(usize, DataValue, DataValue),
    /// one pass of the compactor (only in `nobg` cases)
    Compact,
    /// DELETE FROM t WHERE <key range on column c>: the DELETE's scan carries the row-handler column
    /// and (for an INT first-column primary key) the pushed KeyRange
    DelRange(usize, Bnd, Bnd),
}

/// One SQL query to run, with what the python side needs to judge it.
#[derive(Clone, Debug)]
pub struct Query {
    pub qid: usize,
    /// main | A (ordered, unlimited, keys appended) | U (unordered, unlimited, keys appended)
    pub kind: &'static str,
    pub sql: String,
    /// number of trailing key columns appended to the select list (A, U)
    pub nkeys: usize,
    /// desc flags of the ORDER BY keys
    pub desc: Vec<bool>,
    /// positions (in the select list) of the ORDER BY keys, if all are selected
    pub keypos: Vec<i64>,
    pub limit: Option<u64>,
    pub offset: Option<u64>,
    /// WHERE as a conjunction of atoms (column, operator, constant, constant-on-the-left); the
    /// python oracle evaluates it on the unfiltered result (C13)
    pub wh: Vec<(usize, String, DataValue, bool)>,
    /// for kind U of C13: positions in the select list of the WHERE columns
    pub whpos: Vec<usize>,
}

#[derive(Clone, Debug)]
pub struct ScanReq {
    pub cols: Vec<usize>,
    pub range: Option<(Bnd, Bnd)>,
    pub sorted: bool,
    /// the scan list also holds the row-handler column (`_rowid_`), as a DELETE's scan does:
    /// 0 = no, 1 = after the columns, 2 = before them
    pub handler: u8,
}

#[derive(Clone, Debug)]
pub enum Bnd {
    Unb,
    Incl(DataValue),
    Excl(DataValue),
}

#[derive(Clone, Debug)]
pub struct Case {
    pub id: usize,
    /// true: database without background tasks, large target_rowset_size, explicit `Compact` ops
    pub nobg: bool,
    pub block: usize,
    pub cols: Vec<ColDef>,
    pub pk: Option<usize>,
    pub pkdecl: PkDecl,
    pub ops: Vec<Op>,
    /// write history of a second table `u` with the same definition (joins); empty = no table u
    pub ops2: Vec<Op>,
    pub queries: Vec<Query>,
    pub scans: Vec<ScanReq>,
}

pub fn colname(i: usize) -> String {
    format!("c{i}")
}

pub fn sql_lit(v: &DataValue) -> String {
    match v {
        DataValue::Null => "null".into(),
        DataValue::Int16(x) => x.to_string(),
        DataValue::Int32(x) => x.to_string(),
        DataValue::Int64(x) => x.to_string(),
        DataValue::String(s) => format!("'{s}'"),
        DataValue::Bool(b) => b.to_string(),
        _ => panic!("unsupported literal"),
    }
}

pub fn parse_val(t: &str) -> DataValue {
    if t == "null" {
        return DataValue::Null;
    }
    let (tag, rest) = t.split_once(':').unwrap();
    match tag {
        "b" => DataValue::Bool(rest == "true"),
        "i16" => DataValue::Int16(rest.parse().unwrap()),
        "i32" => DataValue::Int32(rest.parse().unwrap()),
        "i64" => DataValue::Int64(rest.parse().unwrap()),
        "s" => DataValue::String(String::from_utf8(unhex(rest).unwrap()).unwrap().into()),
        _ => panic!("bad value {t}"),
    }
}

impl Case {
    pub fn create_sql(&self) -> String {
        let mut parts = vec![];
        for (i, c) in self.cols.iter().enumerate() {
            let mut s = format!("{} {}", colname(i), c.ty.sql());
            if self.pkdecl == PkDecl::Col && self.pk == Some(i) {
                s += " primary key";
            } else if !c.nullable {
                s += " not null";
            }
            parts.push(s);
        }
        if self.pkdecl == PkDecl::Tbl {
            parts.push(format!("primary key({})", colname(self.pk.unwrap())));
        }
        format!("create table t({})", parts.join(", "))
    }

    pub fn op_sql(&self, op: &Op) -> String {
        self.op_sql_on(op, "t")
    }

    pub fn op_sql_on(&self, op: &Op, table: &str) -> String {
        let s = match op {
            Op::Ins(rows) => {
                let rs: Vec<String> = rows
                    .iter()
                    .map(|r| format!("({})", r.iter().map(sql_lit).collect::<Vec<_>>().join(",")))
                    .collect();
                format!("insert into t values {}", rs.join(","))
            }
            Op::Del(c, a, b) => format!(
                "delete from t where {} = {} or {} = {}",
                colname(*c),
                sql_lit(a),
                colname(*c),
                sql_lit(b)
            ),
            Op::Compact => "-- one compaction pass".to_string(),
            Op::DelRange(c, lo, hi) => {
                let mut atoms = vec![];
                match lo {
                    Bnd::Incl(v) => atoms.push(format!("{} >= {}", colname(*c), sql_lit(v))),
                    Bnd::Excl(v) => atoms.push(format!("{} > {}", colname(*c), sql_lit(v))),
                    Bnd::Unb => {}
                }
                match hi {
                    Bnd::Incl(v) => atoms.push(format!("{} <= {}", colname(*c), sql_lit(v))),
                    Bnd::Excl(v) => atoms.push(format!("{} < {}", colname(*c), sql_lit(v))),
                    Bnd::Unb => {}
                }
                format!("delete from t where {}", atoms.join(" and "))
            }
        };
        s.replace("insert into t ", &format!("insert into {table} ")).replace("delete from t ", &format!("delete from {table} "))
    }

    /// The case as one s-expression line (everything the runner needs).
    pub fn to_sexp(&self) -> String {
        let cols: Vec<String> = self
            .cols
            .iter()
            .map(|c| format!("({} {})", c.ty.tag(), c.nullable))
            .collect();
        let ser = |ops: &Vec<Op>| -> Vec<String> { ops
            .iter()
            .map(|o| match o {
                Op::Ins(rows) => format!(
                    "(ins {})",
                    rows.iter()
                        .map(|r| format!("({})", r.iter().map(canon_value).collect::<Vec<_>>().join(" ")))
                        .collect::<Vec<_>>()
                        .join(" ")
                ),
                Op::Del(c, a, b) => format!("(del {} {} {})", c, canon_value(a), canon_value(b)),
                Op::Compact => "(compact)".to_string(),
                Op::DelRange(c, lo, hi) => format!("(delr {} {} {})", c, bnd_sexp(lo), bnd_sexp(hi)),
            })
            .collect() };
        let ops = ser(&self.ops);
        let ops2 = ser(&self.ops2);
        let qs: Vec<String> = self
            .queries
            .iter()
            .map(|q| {
                format!(
                    "(query {} {} {} {} (desc {}) (keypos {}) {} {} (where {}) (whpos {}))",
                    q.qid,
                    q.kind,
                    hex(q.sql.as_bytes()),
                    q.nkeys,
                    q.desc.iter().map(|b| b.to_string()).collect::<Vec<_>>().join(" "),
                    q.keypos.iter().map(|b| b.to_string()).collect::<Vec<_>>().join(" "),
                    q.limit.map(|x| x.to_string()).unwrap_or("none".into()),
                    q.offset.map(|x| x.to_string()).unwrap_or("none".into()),
                    q.wh.iter().map(|(c, op, v, fl)| format!("({} {} {} {})", c, op, canon_value(v), fl)).collect::<Vec<_>>().join(" "),
                    q.whpos.iter().map(|b| b.to_string()).collect::<Vec<_>>().join(" "),
                )
            })
            .collect();
        let scans: Vec<String> = self.scans.iter().map(scan_sexp).collect();
        format!(
            "(case {} (mode {}) (block {}) (cols {}) (pk {}) (pkdecl {}) (ops {}) (queries {}) (scans {}) (ops2 {}))",
            self.id,
            if self.nobg { "nobg" } else { "bg" },
            self.block,
            cols.join(" "),
            self.pk.map(|x| x.to_string()).unwrap_or("none".into()),
            match self.pkdecl {
                PkDecl::None => "none",
                PkDecl::Col => "col",
                PkDecl::Tbl => "tbl",
            },
            ops.join(" "),
            qs.join(" "),
            scans.join(" "),
            ops2.join(" ")
        )
    }

    pub fn from_sexp(line: &str) -> Case {
        let s = Sexp::parse(line).unwrap();
        let items = s.as_list().unwrap();
        let id: usize = items[1].as_atom().unwrap().parse().unwrap();
        let f = |name: &str| -> Vec<Sexp> {
            for it in &items[2..] {
                if let Some(l) = it.as_list() {
                    if l[0].as_atom() == Some(name) {
                        return l[1..].to_vec();
                    }
                }
            }
            vec![]
        };
        let atom = |s: &Sexp| s.as_atom().unwrap().to_string();
        let block: usize = atom(&f("block")[0]).parse().unwrap();
        let nobg = f("mode").first().map(|m| atom(m) == "nobg").unwrap_or(false);
        let cols = f("cols")
            .iter()
            .map(|c| {
                let l = c.as_list().unwrap();
                ColDef { ty: Ty::of_tag(&atom(&l[0])), nullable: atom(&l[1]) == "true" }
            })
            .collect();
        let pk = atom(&f("pk")[0]).parse::<usize>().ok();
        let pkdecl = match atom(&f("pkdecl")[0]).as_str() {
            "col" => PkDecl::Col,
            "tbl" => PkDecl::Tbl,
            _ => PkDecl::None,
        };
        let ops = f("ops")
            .iter()
            .map(|o| {
                let l = o.as_list().unwrap();
                match atom(&l[0]).as_str() {
                    "ins" => Op::Ins(
                        l[1..]
                            .iter()
                            .map(|r| r.as_list().unwrap().iter().map(|v| parse_val(&atom(v))).collect())
                            .collect(),
                    ),
                    "compact" => Op::Compact,
                    "delr" => Op::DelRange(atom(&l[1]).parse().unwrap(), bnd_of_sexp(&l[2]), bnd_of_sexp(&l[3])),
                    _ => Op::Del(atom(&l[1]).parse().unwrap(), parse_val(&atom(&l[2])), parse_val(&atom(&l[3]))),
                }
            })
            .collect();
        let ops2: Vec<Op> = f("ops2")
            .iter()
            .map(|o| {
                let l = o.as_list().unwrap();
                match atom(&l[0]).as_str() {
                    "ins" => Op::Ins(
                        l[1..]
                            .iter()
                            .map(|r| r.as_list().unwrap().iter().map(|v| parse_val(&atom(v))).collect())
                            .collect(),
                    ),
                    "compact" => Op::Compact,
                    "delr" => Op::DelRange(atom(&l[1]).parse().unwrap(), bnd_of_sexp(&l[2]), bnd_of_sexp(&l[3])),
                    _ => Op::Del(atom(&l[1]).parse().unwrap(), parse_val(&atom(&l[2])), parse_val(&atom(&l[3]))),
                }
            })
            .collect();
        let queries = f("queries")
            .iter()
            .map(|q| {
                let l = q.as_list().unwrap();
                let kind = match atom(&l[2]).as_str() {
                    "main" => "main",
                    "A" => "A",
                    "X" => "X",
                    "XU" => "XU",
                    _ => "U",
                };
                Query {
                    qid: atom(&l[1]).parse().unwrap(),
                    kind,
                    sql: String::from_utf8(unhex(&atom(&l[3])).unwrap()).unwrap(),
                    nkeys: atom(&l[4]).parse().unwrap(),
                    desc: l[5].as_list().unwrap()[1..].iter().map(|x| atom(x) == "true").collect(),
                    keypos: l[6].as_list().unwrap()[1..].iter().map(|x| atom(x).parse().unwrap()).collect(),
                    limit: atom(&l[7]).parse().ok(),
                    offset: atom(&l[8]).parse().ok(),
                    wh: l.get(9).map(|w| w.as_list().unwrap()[1..].iter().map(|a| {
                        let a = a.as_list().unwrap();
                        (atom(&a[0]).parse().unwrap(), atom(&a[1]), parse_val(&atom(&a[2])), atom(&a[3]) == "true")
                    }).collect()).unwrap_or_default(),
                    whpos: l.get(10).map(|w| w.as_list().unwrap()[1..].iter().map(|a| atom(a).parse().unwrap()).collect()).unwrap_or_default(),
                }
            })
            .collect();
        let scans = f("scans").iter().map(scan_of_sexp).collect();
        Case { id, nobg, block, cols, pk, pkdecl, ops, ops2, queries, scans }
    }
}

pub fn bnd_sexp(b: &Bnd) -> String {
    match b {
        Bnd::Unb => "unb".into(),
        Bnd::Incl(v) => format!("(incl {})", canon_value(v)),
        Bnd::Excl(v) => format!("(excl {})", canon_value(v)),
    }
}

pub fn scan_sexp(s: &ScanReq) -> String {
    format!(
        "(s (cols {}) {} {} {})",
        s.cols.iter().map(|c| c.to_string()).collect::<Vec<_>>().join(" "),
        match &s.range {
            None => "none".to_string(),
            Some((lo, hi)) => format!("(range {} {})", bnd_sexp(lo), bnd_sexp(hi)),
        },
        s.sorted,
        s.handler
    )
}

fn bnd_of_sexp(s: &Sexp) -> Bnd {
    match s {
        Sexp::Atom(_) => Bnd::Unb,
        Sexp::List(l) => {
            let v = parse_val(l[1].as_atom().unwrap());
            if l[0].as_atom() == Some("incl") {
                Bnd::Incl(v)
            } else {
                Bnd::Excl(v)
            }
        }
    }
}

pub fn scan_of_sexp(s: &Sexp) -> ScanReq {
    let l = s.as_list().unwrap();
    let cols = l[1].as_list().unwrap()[1..].iter().map(|x| x.as_atom().unwrap().parse().unwrap()).collect();
    let range = match &l[2] {
        Sexp::Atom(_) => None,
        Sexp::List(r) => Some((bnd_of_sexp(&r[1]), bnd_of_sexp(&r[2]))),
    };
    ScanReq { cols, range, sorted: l[3].as_atom() == Some("true"), handler: l.get(4).and_then(|x| x.as_atom()).and_then(|x| x.parse().ok()).unwrap_or(0) }
}

// ---------------------------------------------------------------------------------------------
// Plans rendered with typed constants
// ---------------------------------------------------------------------------------------------

pub fn render_plan(p: &rlverif::risinglight::planner::RecExpr) -> String {
    use egg::Language;
    use rlverif::risinglight::planner::Expr;
    let nodes = p.as_ref();
    fn go(nodes: &[Expr], i: usize, out: &mut String) {
        let n = &nodes[i];
        if let Expr::Constant(v) = n {
            out.push_str(&canon_value(v));
            return;
        }
        if n.is_leaf() {
            out.push_str(&n.to_string());
            return;
        }
        out.push('(');
        out.push_str(&n.to_string());
        for c in n.children() {
            out.push(' ');
            go(nodes, usize::from(*c), out);
        }
        out.push(')');
    }
    let mut s = String::new();
    go(nodes, nodes.len() - 1, &mut s);
    s
}

impl Disk {
    pub fn plans_typed(&self, sql: &str) -> Result<(String, String), String> {
        let r = catch(|| {
            let bound = self.db.verif_bind(sql).map_err(|e| e.to_string())?;
            let b = bound.last().ok_or("no stmt")?.clone();
            let opt = self.rt.block_on(self.db.verif_optimizer()).map_err(|e| e.to_string())?;
            let o = opt.optimize(b.clone());
            Ok::<_, String>((render_plan(&b), render_plan(&o)))
        });
        match r {
            Err(p) => Err(format!("panic:{p}")),
            Ok(x) => x,
        }
    }
}

pub fn outcome_sexp(o: &Outcome) -> String {
    match o {
        Outcome::Ok(rows) => format!("(ok {})", render_rows(rows.clone(), false)),
        Outcome::Err(_) => "(err)".into(),
        Outcome::Panic(_) => "(panic)".into(),
    }
}

fn kr(r: &Option<(Bnd, Bnd)>) -> Option<KeyRange> {
    let b = |x: &Bnd| match x {
        Bnd::Unb => Bound::Unbounded,
        Bnd::Incl(v) => Bound::Included(v.clone()),
        Bnd::Excl(v) => Bound::Excluded(v.clone()),
    };
    r.as_ref().map(|(lo, hi)| KeyRange { start: b(lo), end: b(hi) })
}

/// Runs one case on a fresh disk database; prints `REQ <driver request>` and `OBS <observation>`.
pub fn run_case(c: &Case, workdir: &str) -> (String, String) {
    let dir = format!("{}/db-{}-{}", workdir, std::process::id(), c.id);
    let d = if c.nobg { open_disk_mode(&dir, c.block, 1 << 20, true) } else { open_disk(&dir, c.block, 1) };
    let ncols = c.cols.len();
    let mut notes: Vec<String> = vec![];
    let o = d.sql(&c.create_sql());
    if o.class() != "ok" {
        notes.push(format!("create:{}", o.class()));
    }
    let mut blocks: Vec<String> = vec![];
    let mut delobs: Vec<String> = vec![];
    let mut next_rs = 0usize;
    for op in &c.ops {
        if let Op::Compact = op {
            if let Err(e) = d.compact_once() {
                notes.push(format!("compact:{}", e.replace(' ', "_")));
            }
        } else if let Op::DelRange(..) = op {
            // oracle of a key-range DELETE: rows before, reported count, rows after
            let all = format!("select {} from t", (0..ncols).map(colname).collect::<Vec<_>>().join(", "));
            let before = d.sql(&all);
            let del = d.sql(&c.op_sql(op));
            let after = d.sql(&all);
            delobs.push(format!("(delobs {} (before {}) (count {}) (after {}))", delobs.len(), outcome_sexp(&before), outcome_sexp(&del), outcome_sexp(&after)));
            if del.class() == "err" {
                notes.push("op:err".to_string());
            }
        } else {
            let o = d.sql(&c.op_sql(op));
            if o.class() != "ok" {
                notes.push(format!("op:{}", o.class()));
            }
        }
        if !matches!(op, Op::Del(..) | Op::DelRange(..)) {
            // block row counts of the new row-set, per column: chunk sizes of a one-column scan
            let mut per_col = vec![];
            for col in 0..ncols {
                let r = d.storage_scan("t", &[StorageColumnRef::RowHandler, StorageColumnRef::Idx(col as u32)], None, false);
                let mut counts = vec![];
                if let Ok(chunks) = r {
                    for ch in chunks {
                        let rid: i64 = ch[0][0].trim_start_matches("i64:").parse().unwrap();
                        if (rid >> 32) as usize == next_rs {
                            counts.push(ch.len().to_string());
                        }
                    }
                }
                per_col.push((counts.len(), format!("({})", counts.join(" "))));
            }
            // (a compaction pass that selected <= 1 row-set or produced no rows creates nothing)
            if per_col.iter().any(|p| p.0 > 0) {
                blocks.push(format!("(b {} {})", next_rs, per_col.iter().map(|p| p.1.clone()).collect::<Vec<_>>().join(" ")));
                next_rs += 1;
            }
        }
    }
    // layout in scan order
    let mut cols: Vec<StorageColumnRef> = vec![StorageColumnRef::RowHandler];
    cols.extend((0..ncols).map(|i| StorageColumnRef::Idx(i as u32)));
    let mut snap: Vec<usize> = vec![];
    let mut lay: Vec<(usize, Vec<String>)> = vec![];
    match d.storage_scan("t", &cols, None, false) {
        Ok(chunks) => {
            for row in chunks.into_iter().flatten() {
                let rid: i64 = row[0].trim_start_matches("i64:").parse().unwrap();
                let (rs, r) = ((rid >> 32) as usize, (rid & 0xffff_ffff) as usize);
                if snap.last() != Some(&rs) {
                    snap.push(rs);
                    lay.push((rs, vec![]));
                }
                lay.last_mut().unwrap().1.push(format!("({} {})", r, row[1..].join(" ")));
            }
        }
        Err(e) => notes.push(format!("layout:{e}")),
    }
    // row-sets of the current snapshot with no visible row are not seen by the scan above, but
    // they are still opened by every scan (start_rowid runs on them): append them
    if let StorageImpl::SecondaryStorage(s) = d.db.verif_storage() {
        let (_, rowsets, _) = s.verif_snapshot(None);
        let mut rest: Vec<usize> = rowsets.iter().map(|x| x.1 as usize).filter(|i| !snap.contains(i)).collect();
        rest.sort();
        snap.extend(rest);
    }
    let lay_s = format!(
        "(lay {})",
        lay.iter().map(|(id, rows)| format!("(rs {} {})", id, rows.join(" "))).collect::<Vec<_>>().join(" ")
    );
    // second table (joins): same definition, its own write history (ops2 never compacts)
    if !c.ops2.is_empty() {
        let o = d.sql(&c.create_sql().replacen("create table t(", "create table u(", 1));
        if o.class() != "ok" {
            notes.push(format!("create-u:{}", o.class()));
        }
        for op in &c.ops2 {
            if !matches!(op, Op::Compact) {
                let o = d.sql(&c.op_sql_on(op, "u"));
                if o.class() != "ok" {
                    notes.push(format!("op-u:{}", o.class()));
                }
            }
        }
    }
    // queries
    let mut qreq = vec![];
    let mut qobs = vec![];
    for q in &c.queries {
        let (b, o) = match d.plans_typed(&q.sql) {
            Ok(x) => x,
            Err(e) => (format!("(error {})", hex(e.as_bytes())), "(error)".to_string()),
        };
        let on = d.sql(&q.sql);
        let off = if q.kind == "main" || q.kind == "X" {
            let _ = d.sql("pragma disable_optimizer");
            let r = d.sql(&q.sql);
            let _ = d.sql("pragma enable_optimizer");
            outcome_sexp(&r)
        } else {
            "(skip)".to_string()
        };
        qreq.push(format!("(q {b} {o})"));
        qobs.push(format!("(res {} (on {}) (off {}))", q.qid, outcome_sexp(&on), off));
    }
    // storage-level scans
    let mut sobs = vec![];
    for s in &c.scans {
        let mut cols: Vec<StorageColumnRef> = s.cols.iter().map(|c| StorageColumnRef::Idx(*c as u32)).collect();
        match s.handler {
            1 => cols.push(StorageColumnRef::RowHandler),
            2 => cols.insert(0, StorageColumnRef::RowHandler),
            _ => {}
        }
        let r = d.storage_scan("t", &cols, kr(&s.range), s.sorted);
        sobs.push(match r {
            Ok(chunks) => format!("(ok {})", render_rows(chunks.into_iter().flatten().collect(), false)),
            Err(e) if e.starts_with("panic:") => "(panic)".to_string(),
            Err(_) => "(err)".to_string(),
        });
    }
    d.close();
    let primary = if c.pkdecl == PkDecl::Col { c.pk.map(|x| x.to_string()).unwrap_or_default() } else { String::new() };
    let ops_s = {
        let s = c.to_sexp();
        let a = s.find("(ops ").unwrap();
        let b = s.find(" (queries ").unwrap();
        s[a..b].to_string()
    };
    let req = format!(
        "(case {} (table {} (primary {}) (int {})) {} (snap {}) (blocks {}) (queries {}) (scans {}))",
        c.id,
        ncols,
        primary,
        (0..ncols).filter(|i| c.cols[*i].ty == Ty::I32).map(|i| i.to_string()).collect::<Vec<_>>().join(" "),
        ops_s,
        snap.iter().map(|x| x.to_string()).collect::<Vec<_>>().join(" "),
        blocks.join(" "),
        qreq.join(" "),
        c.scans.iter().map(scan_sexp).collect::<Vec<_>>().join(" ")
    );
    let obs = format!(
        "(obs {} (notes {}) {} (results {}) (scans {}) (deletes {}))",
        c.id,
        notes.join(" "),
        lay_s,
        qobs.join(" "),
        sobs.join(" "),
        delobs.join(" ")
    );
    (req, obs)
}
