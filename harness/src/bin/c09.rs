//! C09 harness: background compaction vs concurrent inserts / deletes on several tables.
//! `c09 gen <n> <out>` writes cases (the two directed witness schedules first), `c09 run <cases>`
//! prints one trace line per case.
#[path = "sched_common/mod.rs"]
mod sched_common;
use rlverif::*;
use sched_common::*;

pub const GATES: &[&str] = &[
    "cmd.begin", "txn.lock.begin", "txn.pinned", "txn.locked", "vm.commit.begin", "vm.committed", "cp.pass.begin",
    "cp.table", "cp.locked", "cp.pass.end", "vac.find",
];

fn gates() -> Vec<String> {
    GATES.iter().map(|s| s.to_string()).collect()
}

/// Two tables with two row-sets each.
fn base_setup() -> Vec<Cmd> {
    vec![
        Cmd::Create("t1".into()),
        Cmd::Create("t2".into()),
        Cmd::Insert("t1".into(), vec![1, 2]),
        Cmd::Insert("t1".into(), vec![3]),
        Cmd::Insert("t2".into(), vec![101, 102]),
        Cmd::Insert("t2".into(), vec![103]),
    ]
}

/// The compactor pins once per pass; it holds the lock of the table it is compacting while a
/// DELETE on the *other* table commits; that table is then compacted from the stale snapshot.
/// (Which table is visited first is hash order, so both tables get a DELETE; the one whose
/// table is locked waits.)
pub fn witness_stale_snapshot(variant: usize) -> Case {
    // variant 0: the t1 session runs inside the window, the t2 session after the pass;
    // variant 1: the other way round.  In the variant whose in-window session targets the table
    // the compactor visits second, that DELETE commits and is then undone.
    let (first, second) = if variant == 0 { (2, 3) } else { (3, 2) };
    Case {
        id: format!("w-stale-snapshot-{variant}"),
        gate: gates(),
        setup: base_setup(),
        actors: vec![
            vec![Cmd::Compact],
            vec![Cmd::Delete("t1".into(), "eq".into(), 1)],
            vec![Cmd::Delete("t2".into(), "eq".into(), 101)],
        ],
        sched: vec![],
        rng: 0,
        sticky: 0,
        script: vec![
            (1, "cp.locked".into()),
            (first, "end".into()),
            (1, "end".into()),
            (second, "end".into()),
        ],
        target: 0,
    }
}

/// The scan of a DELETE (its own read transaction) reads the row handlers while the compactor
/// holds the table lock; the compaction commits; the DELETE then takes the lock and writes its
/// delete vectors against the row-sets that no longer exist.
pub fn witness_delete_after_compaction() -> Case {
    Case {
        id: "w-delete-after-compaction".into(),
        gate: gates(),
        setup: vec![
            Cmd::Create("t1".into()),
            Cmd::Insert("t1".into(), vec![1, 2]),
            Cmd::Insert("t1".into(), vec![3]),
        ],
        actors: vec![vec![Cmd::Compact], vec![Cmd::Delete("t1".into(), "eq".into(), 1)]],
        sched: vec![],
        rng: 0,
        sticky: 0,
        script: vec![(1, "cp.locked".into()), (2, "end".into()), (1, "end".into())],
        target: 0,
    }
}

/// A table WITH a primary key: 3-5 inserts with interleaving key ranges, so that one compaction
/// pass merges >= 3 row-sets (odd and even counts), then key predicates pushed into the scan
/// (`DELETE WHERE pk = k`, a key-range DELETE, `SELECT WHERE pk = k`) and the ordered scan, in the
/// setup after a compaction pass (sequential) and/or concurrently with one.
/// Three overlapping DELETEs on rows of one row-set (see c10.rs `w-three-deleters`).
pub fn witness_three_deleters() -> Case {
    Case {
        id: "w-three-deleters".into(),
        gate: gates(),
        setup: vec![Cmd::Create("t1".into()), Cmd::Insert("t1".into(), vec![1, 2, 3])],
        actors: vec![
            vec![Cmd::Delete("t1".into(), "eq".into(), 1)],
            vec![Cmd::Delete("t1".into(), "eq".into(), 2)],
            vec![Cmd::Delete("t1".into(), "eq".into(), 1)],
        ],
        sched: vec![],
        rng: 0,
        sticky: 0,
        script: vec![(3, "txn.lock.begin".into()), (1, "end".into()), (2, "end".into()), (3, "end".into())],
        target: 0,
    }
}

fn gen_keyed_case(r: &mut Rng, k: usize) -> Case {
    let n_ins = r.range(3, 5) as i32;
    let per = r.range(2, 3) as i32;
    let mut setup = vec![Cmd::Create("t51".into())];
    for i in 0..n_ins {
        // row-set i holds i+1, i+1+n, i+1+2n, ...: every row-set spans the whole key range
        setup.push(Cmd::Insert("t51".into(), (0..per).map(|j| i + 1 + j * n_ins).collect()));
    }
    let max = n_ins * per;
    let probe = |r: &mut Rng| r.range(1, max as i64) as i32;
    let mut sess = |r: &mut Rng| -> Vec<Cmd> {
        let mut v = vec![];
        for _ in 0..r.range(2, 3) {
            v.push(match r.below(5) {
                0 | 1 => Cmd::Delete("t51".into(), "eq".into(), probe(r)),
                2 => Cmd::Delete("t51".into(), "bt".into(), probe(r)),
                3 => Cmd::SelEq("t51".into(), probe(r)),
                _ => Cmd::SelOrd("t51".into()),
            });
        }
        v
    };
    let mut actors = vec![];
    if r.chance(1, 2) {
        // compaction first (sequentially), then the key predicates
        setup.push(Cmd::Compact);
        setup.push(Cmd::SelOrd("t51".into()));
        actors.push(sess(r));
        actors.push(vec![Cmd::SelEq("t51".into(), probe(r)), Cmd::SelOrd("t51".into())]);
    } else {
        actors.push(vec![Cmd::Compact]);
        actors.push(sess(r));
        if r.chance(1, 2) {
            actors.push(sess(r));
        }
    }
    Case {
        id: format!("k{k}"),
        gate: gates(),
        setup,
        actors,
        sched: vec![],
        rng: r.next() | 1,
        sticky: *r.pick(&[0, 50, 80]),
        script: vec![],
        target: 0,
    }
}

/// Three or four DELETE sessions on rows of ONE row-set, with overlapping targets: a session's
/// scan pins its snapshot before the session takes the table lock, so other DELETEs (of the same
/// row and of other rows of the row-set) commit between a session's scan and its commit.
fn gen_deleters_case(r: &mut Rng, k: usize) -> Case {
    let n = r.range(3, 4) as usize;
    let mut setup = vec![Cmd::Create("t1".into()), Cmd::Insert("t1".into(), vec![1, 2, 3])];
    if r.chance(1, 3) {
        setup.push(Cmd::Insert("t1".into(), vec![4, 5]));
    }
    let mut actors = vec![];
    for i in 0..n {
        // at least two sessions aim at row 1, one at another row of the same row-set
        let key = match i {
            0 => 1,
            1 => *r.pick(&[2, 3]),
            2 => 1,
            _ => *r.pick(&[1, 2, 3, 4]),
        };
        let mut a = vec![Cmd::Delete("t1".into(), "eq".into(), key)];
        if r.chance(1, 3) {
            a.push(Cmd::Count("t1".into()));
        }
        actors.push(a);
    }
    Case {
        id: format!("d{k}"),
        gate: gates(),
        setup,
        actors,
        sched: vec![],
        rng: r.next() | 1,
        sticky: *r.pick(&[0, 30, 60]),
        script: vec![],
        target: 0,
    }
}

/// Tiny `target_rowset_size`: one oversized row-set (never selected) that carries delete vectors,
/// and several small row-sets which a compaction pass merges.  The pass must leave the oversized
/// row-set AND its delete vectors alone.
fn gen_subset_case(r: &mut Rng, k: usize) -> Case {
    let big: Vec<i32> = (0..(BIG_ROWS as i32 * 3 + r.range(0, 40) as i32)).map(|i| 1000 + i).collect();
    let mut setup = vec![Cmd::Create("t1".into()), Cmd::Insert("t1".into(), big)];
    // rows of the oversized row-set are deleted (delete vectors on the row-set that is left alone)
    setup.push(Cmd::Delete("t1".into(), "lt".into(), 1000 + r.range(2, 6) as i32));
    let n_small = r.range(2, 3);
    let mut next = 1;
    for _ in 0..n_small {
        let n = r.range(1, 2) as i32;
        setup.push(Cmd::Insert("t1".into(), (0..n).map(|i| next + i).collect()));
        next += n;
    }
    if r.chance(1, 2) {
        setup.push(Cmd::Delete("t1".into(), "eq".into(), 1));
    }
    let mut actors = vec![];
    let sess = |r: &mut Rng| -> Vec<Cmd> {
        match r.below(4) {
            0 => vec![Cmd::Delete("t1".into(), "eq".into(), 1100 + r.range(0, 50) as i32), Cmd::Count("t1".into())],
            1 => vec![Cmd::Delete("t1".into(), "eq".into(), 2), Cmd::Count("t1".into())],
            2 => vec![Cmd::Insert("t1".into(), vec![50, 51]), Cmd::Count("t1".into())],
            _ => vec![Cmd::Count("t1".into()), Cmd::Delete("t1".into(), "ge".into(), 1290)],
        }
    };
    if r.chance(1, 3) {
        setup.push(Cmd::Compact);
        actors.push(sess(r));
        actors.push(vec![Cmd::Count("t1".into())]);
    } else {
        actors.push(vec![Cmd::Compact]);
        actors.push(sess(r));
        if r.chance(1, 2) {
            actors.push(sess(r));
        }
    }
    Case {
        id: format!("s{k}"),
        gate: gates(),
        setup,
        actors,
        sched: vec![],
        rng: r.next() | 1,
        sticky: *r.pick(&[0, 50, 80]),
        script: vec![],
        target: 1024,
    }
}

fn gen_case(r: &mut Rng, k: usize) -> Case {
    if k % 7 == 6 {
        return gen_subset_case(r, k);
    }
    if k % 5 == 4 {
        return gen_deleters_case(r, k);
    }
    if k % 3 == 2 {
        return gen_keyed_case(r, k);
    }
    let mut setup = base_setup();
    if r.chance(1, 3) {
        setup.push(Cmd::Delete("t1".into(), "eq".into(), 2));
    }
    if r.chance(1, 4) {
        setup.push(Cmd::Compact);
        setup.push(Cmd::Insert("t1".into(), vec![4]));
        setup.push(Cmd::Insert("t2".into(), vec![104]));
    }
    let mut next = 10;
    let mut actors = vec![];
    // the compactor: one or two passes
    actors.push(if r.chance(1, 3) { vec![Cmd::Compact, Cmd::Compact] } else { vec![Cmd::Compact] });
    let n_sess = r.range(1, 2);
    for _ in 0..n_sess {
        let n_cmd = r.range(1, 2);
        let mut a = vec![];
        for _ in 0..n_cmd {
            let t = if r.chance(1, 2) { "t1" } else { "t2" };
            let base = if t == "t1" { 0 } else { 100 };
            a.push(match r.below(4) {
                0 => {
                    next += 1;
                    Cmd::Insert(t.into(), vec![base + next, base + next + 30])
                }
                1 => Cmd::Delete(t.into(), "eq".into(), base + r.range(1, 3) as i32),
                2 => Cmd::Delete(t.into(), "lt".into(), base + r.range(2, 3) as i32),
                _ => Cmd::Delete(t.into(), "ge".into(), base + r.range(2, 4) as i32),
            });
        }
        actors.push(a);
    }
    if r.chance(1, 3) {
        actors.push(vec![Cmd::Vacuum]);
    }
    Case {
        id: format!("g{k}"),
        gate: gates(),
        setup,
        actors,
        sched: vec![],
        rng: r.next() | 1,
        sticky: *r.pick(&[0, 50, 80]),
        script: vec![],
        target: 0,
    }
}

fn main() {
    let args: Vec<String> = std::env::args().collect();
    match args[1].as_str() {
        "gen" => {
            let n: usize = args[2].parse().unwrap();
            let mut r = Rng::from_env();
            let mut out = String::new();
            out += &witness_stale_snapshot(0).to_sexp();
            out.push('\n');
            out += &witness_stale_snapshot(1).to_sexp();
            out.push('\n');
            out += &witness_delete_after_compaction().to_sexp();
            out.push('\n');
            out += &witness_three_deleters().to_sexp();
            out.push('\n');
            for k in 0..n {
                out += &gen_case(&mut r, k).to_sexp();
                out.push('\n');
            }
            std::fs::write(&args[3], out).unwrap();
        }
        "run" => {
            let dir = work_dir("c09");
            for (i, line) in read_lines(&args[2]).iter().enumerate() {
                let case = Case::parse(line);
                let o = run_case(&case, &dir.join(format!("db{i}")));
                println!("{}", render_trace(&case, &o));
                let _ = std::fs::remove_dir_all(dir.join(format!("db{i}")));
            }
            let _ = std::fs::remove_dir_all(&dir);
        }
        _ => panic!("usage"),
    }
}
