//! C13 harness.  `c13 gen <n> <out>`, `c13 run <cases> <workdir>`, `c13 sql <cases>`: key-range
//! predicates of every bound kind x key position x key type x projections on disk tables with tiny
//! blocks, several row-sets and deletes; plus storage-level `Transaction::scan` with a KeyRange.
#[path = "scan_common/mod.rs"]
mod common;
use common::*;
use rlverif::risinglight::types::DataValue;
use rlverif::*;

fn key_val(r: &mut Rng, ty: Ty, small: bool) -> DataValue {
    match ty {
        Ty::I32 => DataValue::Int32(match r.below(12) {
            0 => *r.pick(&[-2147483647, 2147483647, -1000, 1000]),
            1 => r.range(-3, 0) as i32,
            _ => if small { r.range(0, 6) as i32 } else { r.range(0, 30) as i32 },
        }),
        Ty::I64 => DataValue::Int64(match r.below(12) {
            0 => *r.pick(&[-3000000000i64, 3000000000, 4294967296, 4294967301]),
            _ => if small { r.range(0, 6) } else { r.range(0, 30) },
        }),
        Ty::Str | Ty::Char => DataValue::String((*r.pick(&["", "a", "ab", "abcd", "abcde", "b", "bcde", "c", "d", "e", "zz", "zzzzz", "B"])).into()),
        Ty::I16 => DataValue::Int16(match r.below(12) {
            0 => *r.pick(&[-32767i16, 32767, -100, 100]),
            _ => if small { r.range(0, 6) as i16 } else { r.range(0, 30) as i16 },
        }),
        Ty::Bool => DataValue::Bool(r.chance(1, 2)),
    }
}

fn other_val(r: &mut Rng, ty: Ty, nullable: bool) -> DataValue {
    if nullable && r.chance(1, 6) {
        return DataValue::Null;
    }
    key_val(r, ty, false)
}

/// A constant of one of the types SQL text can give a key bound: INT, DECIMAL, BIGINT (cast or a
/// literal beyond 32 bits), SMALLINT, the untyped NULL, a string literal.
fn mixed_lit(r: &mut Rng, n: i64) -> (String, &'static str) {
    match r.below(16) {
        0..=2 => (format!("{n}"), "int"),
        3..=7 => (format!("{}.{}", n, *r.pick(&["5", "5", "0", "25"])), "decimal"),
        8 | 9 => (format!("cast({n} as bigint)"), "bigint"),
        10 => ((*r.pick(&["3000000000", "-3000000000", "4294967299"])).to_string(), "bigint"),
        11 => (format!("cast({} as smallint)", n.clamp(-30000, 30000)), "smallint"),
        12 | 13 => ("null".to_string(), "null"),
        _ => (format!("'{n}'"), "string"),
    }
}

/// Key-range statements whose bounds mix constant types (kind "X"), all with the projection `proj`
/// (which holds the key); the check filters the result of `select proj from t` (kind "XU").
fn mixed_queries(r: &mut Rng, key: usize, proj: &[usize], used: &[String], small: bool, queries: &mut Vec<Query>) {
    let sel = proj.iter().map(|c| colname(*c)).collect::<Vec<_>>().join(", ");
    let kpos = proj.iter().position(|c| *c == key).unwrap() as i64;
    let k = colname(key);
    let near = |r: &mut Rng| -> i64 {
        let base: Vec<i64> = used.iter().filter_map(|u| u.split(':').nth(1).and_then(|x| x.parse::<i64>().ok())).filter(|x| x.abs() < 100000).collect();
        if !base.is_empty() && r.chance(2, 3) {
            *r.pick(&base) + r.range(-1, 1)
        } else if small {
            r.range(-1, 7)
        } else {
            r.range(-2, 32)
        }
    };
    for i in 0..4 {
        let (a, b) = { let x = near(r); let y = near(r); if x <= y { (x, y) } else { (y, x) } };
        let (mut la, mut ta) = mixed_lit(r, a);
        let (mut lb, mut tb) = mixed_lit(r, b);
        // most two-sided ranges have exactly one INT bound (the other atom alone is not a pushed range)
        if r.chance(1, 2) {
            if r.chance(1, 2) { la = format!("{a}"); ta = "int"; } else { lb = format!("{b}"); tb = "int"; }
        }
        let lop = *r.pick(&[">=", ">"]);
        let hop = *r.pick(&["<=", "<"]);
        let flip = |op: &str| match op { ">=" => "<=", ">" => "<", "<=" => ">=", _ => ">" };
        let lo_atom = |r: &mut Rng| if r.chance(1, 4) { format!("{la} {} {k}", flip(lop)) } else { format!("{k} {lop} {la}") };
        let hi_atom = |r: &mut Rng| if r.chance(1, 4) { format!("{lb} {} {k}", flip(hop)) } else { format!("{k} {hop} {lb}") };
        let (wsql, shape) = match r.below(8) {
            0 => (lo_atom(r), format!("lower {ta}")),
            1 => (hi_atom(r), format!("upper {tb}")),
            2 => (format!("{k} = {la}"), format!("eq {ta}")),
            3 | 4 => (format!("{k} between {la} and {lb}"), format!("between {ta}/{tb}")),
            5 => (format!("{} and {}", hi_atom(r), lo_atom(r)), format!("two-sided {ta}/{tb}")),
            _ => (format!("{} and {}", lo_atom(r), hi_atom(r)), format!("two-sided {ta}/{tb}")),
        };
        let _ = shape;
        let ordered = r.chance(1, 3);
        let ob = if ordered { format!(" order by {k}") } else { String::new() };
        queries.push(Query {
            qid: 100 + i, kind: "X", sql: format!("select {sel} from t where {wsql}{ob}"),
            nkeys: 0, desc: if ordered { vec![false] } else { vec![] }, keypos: vec![kpos],
            limit: None, offset: None, wh: vec![], whpos: vec![],
        });
    }
    queries.push(Query {
        qid: 100, kind: "XU", sql: format!("select {sel} from t"),
        nkeys: 0, desc: vec![], keypos: vec![kpos], limit: None, offset: None, wh: vec![], whpos: vec![],
    });
}

fn gen_case(r: &mut Rng, id: usize) -> Case {
    let ncols = r.range(1, 4) as usize;
    let pkdecl = match r.below(20) {
        0..=14 => PkDecl::Col,
        15 | 16 => PkDecl::Tbl,
        _ => PkDecl::None,
    };
    // the column the range predicates are on; half of the cases meet the planner's guard position
    let key = if r.chance(1, 2) { 0 } else { r.below(ncols as u64) as usize };
    let pk = if pkdecl == PkDecl::None { None } else { Some(key) };
    let nobg = r.chance(1, 5); // explicit compaction passes (distinct keys then)
    let kty = match r.below(24) {
        20..=23 => Ty::I32,
        0..=9 => Ty::I32,
        10..=12 => Ty::I64,
        13 | 14 => Ty::Str,
        15 | 16 => Ty::I16,
        17 => Ty::Char,
        _ => if nobg { Ty::I16 } else { Ty::Bool },
    };
    let mut cols = vec![];
    for i in 0..ncols {
        if i == key {
            cols.push(ColDef { ty: kty, nullable: pk.is_none() && r.chance(1, 3) });
        } else {
            cols.push(ColDef { ty: *r.pick(&[Ty::I32, Ty::I32, Ty::I32, Ty::I64, Ty::Str, Ty::I16, Ty::Bool]), nullable: r.chance(1, 2) });
        }
    }
    let block = *r.pick(&[24usize, 24, 32, 32, 64, 128, 16384]);
    let small = !nobg && r.chance(2, 5); // small key domain: duplicates (PRIMARY KEY is not enforced)
    let nins = *r.pick(&[1usize, 1, 2, 2, 3]);
    let mut ops = vec![];
    let mut used: Vec<String> = vec![];
    for _ in 0..nins {
        // `big`: a few hundred rows in one row-set = many key blocks with the tiny block sizes
        let big = kty == Ty::I32 && !small && r.chance(1, 6);
        let nrows = if big { r.range(100, 300) as usize } else { match r.below(8) {
            0 => 1,
            1 | 2 => r.range(15, 40) as usize,
            _ => r.range(2, 10) as usize,
        } };
        let mut rows = vec![];
        for _ in 0..nrows {
            let mut row = vec![];
            for (i, c) in cols.iter().enumerate() {
                if i == key {
                    let mut v = if c.nullable && r.chance(1, 8) { DataValue::Null } else { key_val(r, c.ty, small) };
                    if !small {
                        let mut tries = 0;
                        while used.contains(&canon_value(&v)) && tries < 30 {
                            v = if big { DataValue::Int32(r.range(0, 1200) as i32) } else { key_val(r, c.ty, false) };
                            tries += 1;
                        }
                        // compaction cases need distinct keys (merge order of equal keys is the heap's business)
                        while nobg && used.contains(&canon_value(&v)) {
                            v = match c.ty {
                                Ty::I32 => DataValue::Int32(r.range(31, 5000) as i32),
                                Ty::I64 => DataValue::Int64(r.range(31, 5000)),
                                Ty::I16 => DataValue::Int16(r.range(31, 5000) as i16),
                                Ty::Bool => DataValue::Bool(r.chance(1, 2)),
                                Ty::Str | Ty::Char => DataValue::String(format!("k{}", r.range(0, 5000)).into()),
                            };
                        }
                        used.push(canon_value(&v));
                    }
                    row.push(v);
                } else {
                    row.push(other_val(r, c.ty, c.nullable));
                }
            }
            rows.push(row);
        }
        ops.push(Op::Ins(rows));
        if r.chance(1, 3) {
            let c = r.below(ncols as u64) as usize;
            let a = key_val(r, cols[c].ty, small);
            let b = key_val(r, cols[c].ty, small);
            if canon_value(&a) != canon_value(&b) {
                ops.push(Op::Del(c, a, b));
            }
        }
        if nobg && ops.iter().filter(|o| matches!(o, Op::Ins(_))).count() >= 2 && r.chance(1, 2) {
            ops.push(Op::Compact);
        }
        // a key-range DELETE: its scan holds the columns, the row handler and (INT first-column
        // primary key) the pushed KeyRange
        if kty != Ty::Bool && r.chance(1, 3) {
            let a = if big || r.chance(1, 2) { used.last().map(|x| parse_val(x)).unwrap_or_else(|| key_val(r, kty, small)) } else { key_val(r, kty, small) };
            let a = if kty == Ty::I64 || kty == Ty::I16 { key_val(r, Ty::I32, small) } else { a };
            let b = key_val(r, if kty == Ty::I64 || kty == Ty::I16 { Ty::I32 } else { kty }, small);
            if !matches!(a, DataValue::Null) {
                let (lo, hi) = match r.below(5) {
                    0 => (Bnd::Incl(a), Bnd::Unb),
                    1 => (Bnd::Excl(a), Bnd::Unb),
                    2 => (Bnd::Incl(a.clone()), Bnd::Incl(a)),
                    3 => (Bnd::Incl(a), Bnd::Incl(b)),
                    _ => (Bnd::Excl(b), Bnd::Excl(a)),
                };
                ops.push(Op::DelRange(key, lo, hi));
            }
        }
    }
    // queries
    let mut queries = vec![];
    let nq = 4;
    for qid in 0..nq {
        let mut proj: Vec<usize> = vec![];
        let np = r.range(1, ncols as i64) as usize;
        while proj.len() < np {
            let c = r.below(ncols as u64) as usize;
            if !proj.contains(&c) {
                proj.push(c);
            }
        }
        let mut wh: Vec<(usize, String, DataValue, bool)> = vec![];
        let natoms = *r.pick(&[1usize, 1, 1, 2, 2]);
        for _ in 0..natoms {
            let op = *r.pick(&["=", ">", ">=", "<", "<="]);
            let v = if (kty == Ty::I64 && r.chance(1, 2)) || kty == Ty::I16 {
                // an int literal against a bigint key (what SQL text gives for small numbers)
                key_val(r, Ty::I32, small)
            } else {
                key_val(r, kty, small)
            };
            wh.push((key, op.to_string(), v, r.chance(1, 4)));
        }
        let nonkey: Vec<usize> = (0..ncols).filter(|c| *c != key).collect();
        if !nonkey.is_empty() && r.chance(1, 3) {
            let c = *r.pick(&nonkey);
            let v = key_val(r, cols[c].ty, false);
            wh.push((c, (*r.pick(&["=", ">", "<="])).to_string(), v, false));
            if r.chance(1, 2) {
                let n = wh.len();
                wh.swap(0, n - 1); // residual first
            }
        }
        let atom = |a: &(usize, String, DataValue, bool)| {
            if a.3 {
                format!("{} {} {}", sql_lit(&a.2), a.1, colname(a.0))
            } else {
                format!("{} {} {}", colname(a.0), a.1, sql_lit(&a.2))
            }
        };
        let wsql = wh.iter().map(atom).collect::<Vec<_>>().join(" and ");
        let sel = |cs: &[usize]| cs.iter().map(|c| colname(*c)).collect::<Vec<_>>().join(", ");
        // a third of the statements also rely on the key ORDER of the range scan
        let ordered = r.chance(1, 3);
        if ordered && !proj.contains(&key) {
            proj.push(key);
        }
        let ob = if ordered { format!(" order by {}", colname(key)) } else { String::new() };
        queries.push(Query {
            qid, kind: "main", sql: format!("select {} from t where {}{}", sel(&proj), wsql, ob),
            nkeys: 0, desc: if ordered { vec![false] } else { vec![] },
            keypos: if ordered { vec![proj.iter().position(|c| *c == key).unwrap() as i64] } else { vec![] },
            limit: None, offset: None, wh: wh.clone(), whpos: vec![],
        });
        // unfiltered variant: P ++ the WHERE columns
        let mut ucols = proj.clone();
        let mut whpos = vec![];
        for a in &wh {
            whpos.push(ucols.len());
            ucols.push(a.0);
        }
        queries.push(Query {
            qid, kind: "U", sql: format!("select {} from t", sel(&ucols)),
            nkeys: wh.len(), desc: vec![], keypos: vec![], limit: None, offset: None, wh: wh.clone(), whpos,
        });
    }
    // key ranges with bounds of mixed constant types (integer keys)
    if matches!(kty, Ty::I32 | Ty::I64 | Ty::I16) {
        let mut proj: Vec<usize> = vec![key];
        for c in 0..ncols {
            if c != key && r.chance(1, 3) {
                if r.chance(1, 2) { proj.push(c) } else { proj.insert(0, c) }
            }
        }
        mixed_queries(r, key, &proj, &used, small, &mut queries);
    }
    // storage-level scans: (cols, none) then (cols, range) pairs
    let mut scans = vec![];
    for _ in 0..3 {
        let mut sc: Vec<usize> = vec![];
        let n = r.range(1, ncols as i64) as usize;
        while sc.len() < n {
            let c = r.below(ncols as u64) as usize;
            if !sc.contains(&c) {
                sc.push(c);
            }
        }
        if !sc.contains(&key) {
            if r.chance(1, 2) { sc.insert(0, key) } else { sc.push(key) }
        }
        let bnd = |r: &mut Rng| -> Bnd {
            let v = if (kty == Ty::I64 || kty == Ty::I16) && r.chance(1, 3) { key_val(r, Ty::I32, small) } else { key_val(r, kty, small) };
            match r.below(3) {
                0 => Bnd::Unb,
                1 => Bnd::Incl(v),
                _ => Bnd::Excl(v),
            }
        };
        let lo = bnd(r);
        let hi = bnd(r);
        // half of the pairs carry the row-handler column after the columns, like a DELETE's scan
        let handler = if r.chance(1, 2) { 1 } else { 0 };
        scans.push(ScanReq { cols: sc.clone(), range: None, sorted: false, handler });
        scans.push(ScanReq { cols: sc, range: Some((lo, hi)), sorted: false, handler });
    }
    Case { id, nobg, block, cols, pk, pkdecl, ops, ops2: vec![], queries, scans }
}

fn main() {
    let args: Vec<String> = std::env::args().collect();
    match args[1].as_str() {
        "gen" => {
            let n: usize = args[2].parse().unwrap();
            let mut r = Rng::from_env();
            let mut out = String::new();
            for id in 0..n {
                out += &gen_case(&mut r, id).to_sexp();
                out.push('\n');
            }
            std::fs::write(&args[3], out).unwrap();
        }
        "run" => {
            let work = &args[3];
            for line in read_lines(&args[2]) {
                let c = Case::from_sexp(&line);
                let (req, obs) = run_case(&c, work);
                println!("REQ {req}");
                println!("OBS {obs}");
            }
        }
        "sql" => {
            for line in read_lines(&args[2]) {
                let c = Case::from_sexp(&line);
                println!("-- case {} (block {})", c.id, c.block);
                println!("{};", c.create_sql());
                for op in &c.ops {
                    println!("{};", c.op_sql(op));
                }
                for q in &c.queries {
                    println!("{}; -- q{} {}", q.sql, q.qid, q.kind);
                }
                for s in &c.scans {
                    println!("-- storage scan {}", scan_sexp(s));
                }
            }
        }
        _ => panic!("usage"),
    }
}
