use rlverif::*;
fn main() {
    let rt = runtime();
    let db = risinglight::Database::new_in_memory();
    println!("{}", run_sql(&rt, &db, "create table t(a int, b varchar); insert into t values (1,'x'),(null,'y'); select a+1, b from t").render(true));
    let plans = db.verif_bind("select a from t where a = a").unwrap();
    println!("{}", plans[0]);
    println!("{}", Sexp::parse(&plans[0].to_string()).unwrap());
}
