//! C03 harness: executes generated storage histories (insert / delete / compaction / vacuum /
//! reopen) on the real on-disk engine.  `c03 run <requests> <workdir> <impl_out> <model_req> [detail]`
#[path = "../store_common.rs"]
mod store_common;

use std::io::Write;
use std::path::Path;

fn main() {
    let args: Vec<String> = std::env::args().collect();
    match args[1].as_str() {
        "run" => {
            let detail = args.get(6).map(|s| s == "detail").unwrap_or(false);
            let mut out = std::fs::File::create(&args[4]).unwrap();
            let mut mreq = std::fs::File::create(&args[5]).unwrap();
            for line in rlverif::read_lines(&args[2]) {
                let (lines, ann) = store_common::run_history(&line, Path::new(&args[3]), detail);
                for l in lines {
                    writeln!(out, "{l}").unwrap();
                }
                writeln!(mreq, "{ann}").unwrap();
            }
        }
        _ => panic!("usage: c03 run <requests> <workdir> <impl_out> <model_req> [detail]"),
    }
}
