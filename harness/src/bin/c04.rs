//! C04 harness — crash points (hooks `persist.*`).
//!
//! `c04 gen <n> <out>`                 workloads, one per line:  <model ops sexp> \t <sql;sql;…>
//! `c04 run <workloads> <out.jsonl> <workdir> [thorough]`
//!     per workload: a recording run on a fresh directory with a recorder that snapshots the
//!     database directory at every persistence point; then for every point and byte prefixes of
//!     the write in flight: build the directory image, reopen it (panics caught), dump all
//!     tables, classify against the acknowledged prefix (pre | post | other | open-fails), run
//!     follow-up INSERT / DELETE / SELECT, and crash again inside that recovery.
use std::collections::BTreeMap;
use std::path::{Path, PathBuf};
use std::sync::{Arc, Mutex};

use rlverif::risinglight::storage::SecondaryStorageOptions;
use rlverif::risinglight::verif::{self, Action};
use rlverif::risinglight::Database;
use rlverif::*;
use serde_json::json;

// ---------------------------------------------------------------------------------------------
// directory snapshots
// ---------------------------------------------------------------------------------------------

/// relative path -> Some(bytes) for files, None for directories
type Snap = BTreeMap<String, Option<Vec<u8>>>;

fn snap_dir(root: &Path) -> Snap {
    fn go(root: &Path, dir: &Path, out: &mut Snap) {
        let Ok(rd) = std::fs::read_dir(dir) else { return };
        for e in rd.flatten() {
            let p = e.path();
            let rel = p.strip_prefix(root).unwrap().to_string_lossy().to_string();
            if p.is_dir() {
                out.insert(rel, None);
                go(root, &p, out);
            } else {
                out.insert(rel, Some(std::fs::read(&p).unwrap_or_default()));
            }
        }
    }
    let mut s = Snap::new();
    if root.exists() {
        s.insert(String::new(), None);
        go(root, root, &mut s);
    }
    s
}

fn write_snap(s: &Snap, root: &Path) {
    let _ = std::fs::remove_dir_all(root);
    for (rel, v) in s {
        let p = if rel.is_empty() { root.to_path_buf() } else { root.join(rel) };
        match v {
            None => std::fs::create_dir_all(&p).unwrap(),
            Some(b) => {
                if let Some(parent) = p.parent() {
                    std::fs::create_dir_all(parent).unwrap();
                }
                std::fs::write(&p, b).unwrap();
            }
        }
    }
}

/// What happened between two snapshots, in the vocabulary shared with the model's `PStep`s.
#[derive(Clone, Debug, PartialEq)]
enum Change {
    None,
    Mkdir(String),
    Rmdir(String),
    Create(String, usize),
    Append(String, usize, usize),
    Truncate(String),
    Rename(String, String),
    Other(String),
}

fn diff(a: &Snap, b: &Snap) -> Vec<Change> {
    let mut out = vec![];
    let gone: Vec<&String> = a.keys().filter(|k| !b.contains_key(*k)).collect();
    let new: Vec<&String> = b.keys().filter(|k| !a.contains_key(*k)).collect();
    // rename tmp -> manifest
    if gone.len() == 1 && new.is_empty() && a[gone[0]].is_some() {
        let src = gone[0];
        for (k, v) in b {
            // (the target may already have had the same content: a reopen right after a reopen
            // rewrites the manifest to what it was)
            let same_as_before = a[k] == *v;
            if a.get(k).is_some() && *v == a[src] && (!same_as_before || (src == "manifest.tmp.json" && k == "manifest.json")) {
                return vec![Change::Rename(src.clone(), k.clone())];
            }
        }
    }
    for k in &new {
        match &b[*k] {
            None => out.push(Change::Mkdir((*k).clone())),
            Some(bytes) => out.push(Change::Create((*k).clone(), bytes.len())),
        }
    }
    let gone_dirs: Vec<&String> = gone.iter().filter(|k| a[**k].is_none()).cloned().collect();
    for k in &gone {
        if a[*k].is_none() {
            out.push(Change::Rmdir((*k).clone()));
        } else if !gone_dirs.iter().any(|d| k.starts_with(&format!("{d}/"))) {
            out.push(Change::Other(format!("unlink {k}")));
        }
    }
    for (k, v) in b {
        if let (Some(Some(old)), Some(new)) = (a.get(k), v) {
            if old != new {
                if new.len() > old.len() && new[..old.len()] == old[..] {
                    out.push(Change::Append(k.clone(), old.len(), new.len()));
                } else if new.is_empty() {
                    out.push(Change::Truncate(k.clone()));
                } else {
                    out.push(Change::Other(format!("rewrite {k}")));
                }
            }
        }
    }
    // a new directory together with files inside it is reported as mkdir + creates (kept)
    if out.is_empty() {
        out.push(Change::None);
    }
    out
}

fn change_str(c: &Change) -> String {
    match c {
        Change::None => "none".into(),
        Change::Mkdir(p) => format!("mkdir {p}"),
        Change::Rmdir(p) => format!("rmdir {p}"),
        Change::Create(p, n) => format!("create {p} {n}"),
        Change::Append(p, a, b) => format!("append {p} {a} {b}"),
        Change::Truncate(p) => format!("truncate {p}"),
        Change::Rename(a, b) => format!("rename {a} {b}"),
        Change::Other(s) => format!("other {s}"),
    }
}

/// `begin,addrowset:0:1,end` for the complete JSON records in `bytes`.
fn rec_summary(bytes: &[u8]) -> String {
    let mut v = vec![];
    for val in serde_json::Deserializer::from_slice(bytes).into_iter::<serde_json::Value>() {
        let Ok(val) = val else { v.push("?".to_string()); break };
        v.push(match &val {
            serde_json::Value::String(s) => s.to_lowercase(),
            serde_json::Value::Object(o) => {
                let (k, e) = o.iter().next().unwrap();
                let t = &e["table_id"]["table_id"];
                match k.as_str() {
                    "CreateTable" => format!("createtable:{}", e["table_name"].as_str().unwrap_or("?")),
                    "DropTable" => format!("droptable:{t}"),
                    "AddRowSet" => format!("addrowset:{t}:{}", e["rowset_id"]),
                    "DeleteRowSet" => format!("deleterowset:{t}:{}", e["rowset_id"]),
                    "AddDV" => format!("adddv:{t}:{}:{}", e["rowset_id"], e["dv_id"]),
                    "DeleteDV" => format!("deletedv:{t}:{}:{}", e["rowset_id"], e["dv_id"]),
                    other => other.to_string(),
                }
            }
            _ => "?".to_string(),
        });
    }
    v.join(",")
}

// ---------------------------------------------------------------------------------------------
// recorder
// ---------------------------------------------------------------------------------------------

#[derive(Clone, Debug)]
struct Point {
    name: String,
    detail: String,
    stmt: i64, // -1 = bootstrap
    snap: Snap,
}

struct Rec {
    root: PathBuf,
    stmt: i64,
    points: Vec<Point>,
}

fn install_recorder(rec: Arc<Mutex<Rec>>) {
    verif::install_sync(Arc::new(move |name: &str, detail: &str| {
        if name.starts_with("persist.") {
            let mut r = rec.lock().unwrap();
            let snap = snap_dir(&r.root);
            let stmt = r.stmt;
            // details carry absolute paths: make them relative to the database directory
            let root = r.root.to_string_lossy().to_string();
            let detail = detail.replace(&format!("{root}/"), "").replace(&root, ".");
            r.points.push(Point { name: name.to_string(), detail, stmt, snap });
        }
        Action::Continue
    }));
}

fn options(dir: &Path) -> SecondaryStorageOptions {
    let mut opt = SecondaryStorageOptions::default_for_cli();
    opt.path = dir.to_path_buf();
    opt
}

/// Opens a database directory without background tasks; `Err(class, message)` on failure.
fn open(rt: &tokio::runtime::Runtime, dir: &Path) -> Result<Database, (String, String)> {
    match catch(|| rt.block_on(Database::verif_new_on_disk_nobg(options(dir)))) {
        Err(p) => Err(("panic".into(), p)),
        Ok(Err(e)) => Err(("err".into(), e.to_string())),
        Ok(Ok(db)) => Ok(db),
    }
}

const TABLES: [&str; 3] = ["t", "u", "v"];

/// Canonical content of all known tables: name -> sorted rows | "absent"
fn dump(rt: &tokio::runtime::Runtime, db: &Database) -> Vec<String> {
    TABLES
        .iter()
        .map(|t| match run_sql(rt, db, &format!("select * from {t}")) {
            Outcome::Ok(rows) => format!("{t}: {}", render_rows(rows, true)),
            Outcome::Err(e) if e.contains("not found") || e.contains("invalid table") => format!("{t}: absent"),
            Outcome::Err(e) => format!("{t}: ERR {}", e.chars().take(80).collect::<String>()),
            Outcome::Panic(p) => format!("{t}: PANIC {}", p.chars().take(80).collect::<String>()),
        })
        .collect()
}

fn special(db: &Database, rt: &tokio::runtime::Runtime, stmt: &str) -> Option<Outcome> {
    use rlverif::risinglight::storage::StorageImpl;
    let StorageImpl::SecondaryStorage(s) = db.verif_storage() else { return None };
    match stmt.trim() {
        "COMPACT" => Some(match catch(|| rt.block_on(s.verif_compact_once())) {
            Ok(Ok(())) => Outcome::Ok(vec![]),
            Ok(Err(e)) => Outcome::Err(e.to_string()),
            Err(p) => Outcome::Panic(p),
        }),
        "VACUUM" => Some(match catch(|| rt.block_on(s.verif_vacuum_once())) {
            Ok(Ok(())) => Outcome::Ok(vec![]),
            Ok(Err(e)) => Outcome::Err(e.to_string()),
            Err(p) => Outcome::Panic(p),
        }),
        _ => None,
    }
}

// ---------------------------------------------------------------------------------------------
// one workload
// ---------------------------------------------------------------------------------------------

struct Ctx {
    rt: tokio::runtime::Runtime,
    work: PathBuf,
    thorough: bool,
    n_img: usize,
}

/// byte prefixes to try for a write of bytes old..new; `bounds` = record boundaries (absolute)
fn prefixes(old: usize, new: usize, bounds: &[usize], thorough: bool) -> Vec<usize> {
    let mut v: Vec<usize> = vec![];
    if thorough || new - old <= 12 {
        v.extend(old..new);
    } else {
        v.extend([old, old + 1, (old + new) / 2, new - 1]);
        for b in bounds {
            for x in [b.wrapping_sub(1), *b, b + 1] {
                if x >= old && x < new {
                    v.push(x);
                }
            }
        }
    }
    v.sort();
    v.dedup();
    v
}

struct Reopen {
    class: String, // ok | err | panic
    msg: String,
    dump: Vec<String>,
    followups: Vec<(String, String, String)>,
    recovery_points: Vec<Point>,
}

fn reopen_image(ctx: &mut Ctx, img: &Snap, record: bool, followups: bool) -> Reopen {
    ctx.n_img += 1;
    let dir = ctx.work.join(format!("img{}", ctx.n_img));
    write_snap(img, &dir);
    let rec = Arc::new(Mutex::new(Rec { root: dir.clone(), stmt: -1, points: vec![] }));
    if record {
        install_recorder(rec.clone());
    }
    let r = open(&ctx.rt, &dir);
    verif::clear();
    let mut out = Reopen { class: "ok".into(), msg: String::new(), dump: vec![], followups: vec![], recovery_points: vec![] };
    match r {
        Err((c, m)) => {
            out.class = c;
            out.msg = m.chars().take(160).collect();
        }
        Ok(db) => {
            out.dump = dump(&ctx.rt, &db);
            if followups {
                for t in TABLES {
                    if out.dump.iter().any(|d| d.starts_with(&format!("{t}: absent"))) {
                        continue;
                    }
                    for sql in [
                        format!("insert into {t} values (9001, 1)"),
                        format!("delete from {t} where a >= 0"),
                        format!("select count(*) from {t}"),
                    ] {
                        let o = run_sql(&ctx.rt, &db, &sql);
                        let msg = match &o {
                            Outcome::Err(e) | Outcome::Panic(e) => e.chars().take(120).collect(),
                            Outcome::Ok(r) => render_rows(r.clone(), true),
                        };
                        out.followups.push((sql, o.class().to_string(), msg));
                    }
                }
            }
            drop(db);
        }
    }
    out.recovery_points = rec.lock().unwrap().points.clone();
    let _ = std::fs::remove_dir_all(&dir);
    out
}

/// Continues after a crash: recover the image, reopen AGAIN, INSERT, DELETE, reopen, DROP, reopen —
/// a dump after every step (`label:class:tables`).  Run on crash images inside a compaction / DROP and
/// on the statement-boundary images they must be equivalent to.
fn continuation(ctx: &mut Ctx, img: &Snap) -> Vec<String> {
    ctx.n_img += 1;
    let dir = ctx.work.join(format!("cont{}", ctx.n_img));
    write_snap(img, &dir);
    let mut out: Vec<String> = vec![];
    let mut table: Option<&str> = None;
    // steps: None = close and reopen, Some(sql) = statement ({T} = the first table that exists)
    let steps: [(&str, Option<&str>); 7] = [
        ("open1", None),
        ("open2", None),
        ("insert", Some("insert into {T} values (9001,1),(9002,2)")),
        ("delete", Some("delete from {T} where a = 9001")),
        ("open3", None),
        ("drop", Some("drop table {T}")),
        ("open4", None),
    ];
    let mut db: Option<Database> = None;
    for (label, sql) in steps {
        let class;
        match sql {
            None => {
                drop(db.take());
                match open(&ctx.rt, &dir) {
                    Ok(d) => {
                        db = Some(d);
                        class = "ok".to_string();
                    }
                    Err((c, _)) => {
                        out.push(format!("{label}:{c}:"));
                        break;
                    }
                }
            }
            Some(sql) => {
                let Some(t) = table else { continue };
                class = run_sql(&ctx.rt, db.as_ref().unwrap(), &sql.replace("{T}", t)).class().to_string();
            }
        }
        let d = dump(&ctx.rt, db.as_ref().unwrap());
        if label == "open1" {
            table = TABLES.iter().find(|t| !d.iter().any(|x| x.starts_with(&format!("{t}: absent")))).copied();
        }
        out.push(format!("{label}:{class}:{}", d.join(" | ")));
    }
    drop(db);
    let _ = std::fs::remove_dir_all(&dir);
    out
}

fn run_workload(ctx: &mut Ctx, wid: usize, model_ops: &str, stmts: &[String], out: &mut Vec<serde_json::Value>) {
    let dir = ctx.work.join(format!("rec{wid}"));
    let _ = std::fs::remove_dir_all(&dir);
    let rec = Arc::new(Mutex::new(Rec { root: dir.clone(), stmt: -1, points: vec![] }));
    install_recorder(rec.clone());
    let db = match open(&ctx.rt, &dir) {
        Ok(db) => db,
        Err((c, m)) => {
            verif::clear();
            out.push(json!({"type": "skip", "workload": wid, "why": format!("initial open {c}: {m}")}));
            return;
        }
    };
    // states[i] = dump after i acknowledged statements
    let mut states: Vec<Vec<String>> = vec![dump(&ctx.rt, &db)];
    let mut outcomes = vec![];
    let mut db = Some(db);
    let mut failed_at: Option<usize> = None;
    // (manifest.json content before the last rename, statement index of that rename)
    let mut lost: Vec<serde_json::Value> = vec![];
    for (i, s) in stmts.iter().enumerate() {
        rec.lock().unwrap().stmt = i as i64;
        let o = if s.trim() == "REOPEN" {
            drop(db.take());
            match open(&ctx.rt, &dir) {
                Ok(d) => {
                    db = Some(d);
                    Outcome::Ok(vec![])
                }
                Err((c, m)) => {
                    // a clean reopen that fails is itself a result (C04: "reopening succeeds");
                    // the workload ends here, the statements before it are still crashed
                    out.push(json!({"type": "reopen-fails", "workload": wid, "stmt": i, "class": c, "msg": m.chars().take(200).collect::<String>(),
                        "stmts": stmts}));
                    failed_at = Some(i);
                    break;
                }
            }
        } else if let Some(o) = special(db.as_ref().unwrap(), &ctx.rt, s) {
            o
        } else {
            run_sql(&ctx.rt, db.as_ref().unwrap(), s)
        };
        outcomes.push(o.class().to_string());
        // the recorder must not see the dump's reads (they have no persist points anyway)
        states.push(dump(&ctx.rt, db.as_ref().unwrap()));
        // lost-rename image of the acknowledged state: manifest.json as it was before the last
        // rename, the current manifest.json as manifest.tmp.json
        {
            let pts = &rec.lock().unwrap().points;
            let mut before: Option<Vec<u8>> = None;
            for n in 0..pts.len() {
                if pts[n].name == "persist.tmp.rename" {
                    before = Some(pts[n].snap.get("manifest.json").and_then(|x| x.clone()).unwrap_or_default());
                }
                // the directory was fsynced after the rename: the rename can not be lost any more
                if pts[n].name == "persist.tmp.dirsynced" {
                    before = None;
                }
            }
            if let Some(old) = before {
                let mut img = snap_dir(&dir);
                if let Some(Some(cur)) = img.get("manifest.json").cloned() {
                    img.insert("manifest.tmp.json".into(), Some(cur));
                    img.insert("manifest.json".into(), Some(old));
                    verif::clear();
                    let r = reopen_image(ctx, &img, false, false);
                    install_recorder(rec.clone());
                    lost.push(json!({"stmt": i, "class": r.class, "same": r.class == "ok" && r.dump == *states.last().unwrap(), "dump": r.dump}));
                }
            }
        }
    }
    let stmts: Vec<String> = match failed_at { Some(i) => stmts[..i].to_vec(), None => stmts.to_vec() };
    let stmts = &stmts[..];
    verif::clear();
    let final_snap = snap_dir(&dir);
    drop(db);
    let mut points = rec.lock().unwrap().points.clone();
    if let Some(f) = failed_at {
        points.retain(|p| p.stmt < f as i64);
    }
    let _ = std::fs::remove_dir_all(&dir);

    // observed persistence steps per statement (the tie to the model's `psteps`)
    let mut steps: BTreeMap<i64, Vec<String>> = BTreeMap::new();
    for n in 0..points.len() {
        let next = if n + 1 < points.len() { &points[n + 1].snap } else { &final_snap };
        for c in diff(&points[n].snap, next) {
            if c != Change::None {
                let extra = match &c {
                    Change::Append(f, old, _) if f.starts_with("manifest") => {
                        format!(" recs {} lens {}", rec_summary(&next[f].as_ref().unwrap()[*old..]), points[n].detail)
                    }
                    _ => String::new(),
                };
                steps.entry(points[n].stmt).or_default().push(format!("{}{}", change_str(&c), extra));
            }
        }
    }
    out.push(json!({"type": "workload", "workload": wid, "model_ops": model_ops, "stmts": stmts, "outcomes": outcomes,
        "states": states, "npoints": points.len(), "lost_rename": lost,
        "steps": steps.iter().map(|(k, v)| (k.to_string(), v.clone())).collect::<BTreeMap<_, _>>()}));

    // statements whose crash images are continued after recovery (compaction, DROP): the
    // statement-boundary images before / after them are the references
    let continued = |i: i64| i >= 0 && ((stmts[i as usize].trim() == "COMPACT") || stmts[i as usize].to_lowercase().starts_with("drop"));
    {
        let mut seen: Vec<i64> = vec![];
        for n in 0..points.len() {
            let i = points[n].stmt;
            if continued(i) && !seen.contains(&i) {
                seen.push(i);
                let pre = points[n].snap.clone();
                let post = points.iter().find(|p| p.stmt > i).map(|p| p.snap.clone()).unwrap_or_else(|| final_snap.clone());
                let cp = continuation(ctx, &pre);
                let cq = continuation(ctx, &post);
                out.push(json!({"type": "cont-ref", "workload": wid, "stmt": i, "sql": stmts[i as usize], "pre": cp, "post": cq}));
            }
        }
    }
    // crash images
    let mut k_in_stmt: usize = 0;
    let mut cur_stmt: i64 = -2;
    for n in 0..points.len() {
        let p = &points[n];
        if p.stmt != cur_stmt {
            cur_stmt = p.stmt;
            k_in_stmt = 0;
        }
        let k_here = k_in_stmt;
        let next = if n + 1 < points.len() { &points[n + 1].snap } else { &final_snap };
        let changes = diff(&p.snap, next);
        // images: (kind, file, j, len, snap)
        let mut images: Vec<(String, String, usize, usize, Snap)> = vec![("at-point".into(), String::new(), 0, 0, p.snap.clone())];
        for c in &changes {
            match c {
                Change::Create(f, len) => {
                    for j in prefixes(0, *len, &[], ctx.thorough) {
                        let mut s = p.snap.clone();
                        // the directory of a new file may be new as well
                        for c2 in &changes {
                            if let Change::Mkdir(d) = c2 {
                                s.insert(d.clone(), None);
                            }
                        }
                        s.insert(f.clone(), Some(next[f].as_ref().unwrap()[..j].to_vec()));
                        images.push(("create-prefix".into(), f.clone(), j, *len, s));
                    }
                }
                Change::Append(f, old, new) => {
                    let mut bounds = vec![];
                    if p.name == "persist.manifest.append" {
                        let mut at = *old;
                        for l in p.detail.split(',').filter_map(|x| x.parse::<usize>().ok()) {
                            at += l;
                            bounds.push(at);
                        }
                    }
                    for j in prefixes(*old, *new, &bounds, ctx.thorough) {
                        if j == *old {
                            continue;
                        }
                        let mut s = p.snap.clone();
                        s.insert(f.clone(), Some(next[f].as_ref().unwrap()[..j].to_vec()));
                        images.push(("append-prefix".into(), f.clone(), j, *new, s));
                    }
                }
                Change::Rmdir(d) => {
                    // remove_dir_all is not atomic: one file already gone
                    let mut s = p.snap.clone();
                    if let Some(f) = s.keys().find(|k| k.starts_with(&format!("{d}/"))).cloned() {
                        s.remove(&f);
                        images.push(("rmdir-partial".into(), d.clone(), 0, 0, s));
                    }
                }
                _ => {}
            }
        }
        for (kind, file, j, len, img) in images {
            let r = reopen_image(ctx, &img, true, true);
            let i = p.stmt;
            let pre = if i < 0 { None } else { Some(&states[i as usize]) };
            let post = if i < 0 { Some(&states[0]) } else { Some(&states[i as usize + 1]) };
            let verdict = if r.class != "ok" {
                "open-fails"
            } else if pre.is_some() && pre == post && Some(&r.dump) == pre {
                "pre=post"
            } else if Some(&r.dump) == pre {
                "pre"
            } else if Some(&r.dump) == post {
                "post"
            } else if pre.is_none() && r.dump.iter().all(|d| d.ends_with("absent")) {
                "post"
            } else {
                "other"
            };
            // crash inside the recovery of this image
            let mut rr = vec![];
            let do_recrash = if ctx.thorough {
                (kind == "at-point" && n % 2 == 0) || (kind != "at-point" && j % 41 == 0)
            } else {
                (kind == "at-point" && (n % 6 == 0 || p.name.contains("dv") || p.name.contains("precommit") || p.name.contains("vacuum")))
                    || (kind != "at-point" && j % 11 == 0)
            };
            if r.class == "ok" && do_recrash {
                let rp = r.recovery_points.clone();
                for (m, q) in rp.iter().enumerate() {
                    let r2 = reopen_image(ctx, &q.snap, false, false);
                    rr.push(json!({"at": q.name, "m": m, "class": r2.class, "same": r2.dump == r.dump, "msg": r2.msg}));
                    // prefixes of the tmp manifest write
                    if q.name == "persist.manifest.append" && m + 1 < rp.len() {
                        for c in diff(&q.snap, &rp[m + 1].snap) {
                            if let Change::Append(f, old, new) = c {
                                for j in prefixes(old, new, &[], false) {
                                    let mut s = q.snap.clone();
                                    s.insert(f.clone(), Some(rp[m + 1].snap[&f].as_ref().unwrap()[..j].to_vec()));
                                    let r3 = reopen_image(ctx, &s, false, false);
                                    rr.push(json!({"at": format!("tmp-prefix {j}"), "m": m, "class": r3.class, "same": r3.dump == r.dump, "msg": r3.msg}));
                                }
                            }
                        }
                    }
                }
            }
            // delete-vector files of the image that no complete manifest record references
            let orphan_dv = {
                let recs = img.get("manifest.json").and_then(|x| x.as_ref()).map(|b| rec_summary(b)).unwrap_or_default();
                let mut live: Vec<String> = vec![];
                // only committed transactions count (records up to the last `end`)
                let all: Vec<&str> = recs.split(',').collect();
                let committed = all.iter().rposition(|r| *r == "end").map(|i| &all[..=i]).unwrap_or(&[]);
                for r in committed {
                    if let Some(k) = r.strip_prefix("adddv:") {
                        live.push(k.to_string());
                    } else if let Some(k) = r.strip_prefix("deletedv:") {
                        live.retain(|x| x != k);
                    }
                }
                img.keys().any(|f| {
                    f.strip_prefix("dv/").and_then(|x| x.strip_suffix(".dv")).map(|x| !live.contains(&x.replace('_', ":"))).unwrap_or(false)
                })
            };
            let cont = if continued(i) { continuation(ctx, &img) } else { vec![] };
            out.push(json!({"type": "image", "workload": wid, "stmt": i, "k": k_here, "orphan_dv": orphan_dv, "cont": cont, "sql": if i >= 0 { stmts[i as usize].clone() } else { "BOOT".into() },
                "point": n, "name": p.name, "detail": p.detail, "kind": kind, "file": file, "j": j, "len": len,
                "changes": changes.iter().map(change_str).collect::<Vec<_>>(),
                "class": r.class, "msg": r.msg, "verdict": verdict, "dump": r.dump,
                "followups": r.followups.iter().map(|(s, c, m)| json!([s, c, m])).collect::<Vec<_>>(),
                "recovery_steps": r.recovery_points.iter().map(|q| q.name.clone()).collect::<Vec<_>>(),
                "recrash": rr}));
        }
        k_in_stmt += changes.iter().filter(|c| **c != Change::None).count();
    }
}

// ---------------------------------------------------------------------------------------------
// generator
// ---------------------------------------------------------------------------------------------

fn gen_workload(r: &mut Rng) -> (String, Vec<String>) {
    let mut model = vec![];
    let mut sql = vec![];
    let mut tables: Vec<&str> = vec![];
    let mut next_a = 1;
    let n = r.range(3, 7);
    // row-sets per table since creation / last compaction, and whether a delete vector exists
    let mut nrs: std::collections::HashMap<&str, usize> = Default::default();
    let mut has_dv: std::collections::HashMap<&str, bool> = Default::default();
    let mut compacted_with_dv: Vec<&str> = vec![];
    // DDL on EMPTY tables: a third of the workloads start with CREATE, DROP (no insert in between)
    // and often a re-CREATE of the same name
    if r.chance(1, 3) {
        let t = *r.pick(&["t", "u"]);
        model.push(format!("(create {t} 2)"));
        sql.push(format!("create table {t}(a int, b int)"));
        model.push(format!("(drop {t})"));
        sql.push(format!("drop table {t}"));
        if r.chance(1, 3) {
            model.push("(reopen)".into());
            sql.push("REOPEN".into());
        }
        if r.chance(2, 3) {
            tables.push(t);
            nrs.insert(t, 0);
            has_dv.insert(t, false);
            model.push(format!("(create {t} 2)"));
            sql.push(format!("create table {t}(a int, b int)"));
        }
    }
    for step in 0..n {
        let choice = if tables.is_empty() { 0 } else { r.below(13) };
        match choice {
            0 | 1 if tables.len() < 2 => {
                let t = if tables.contains(&"t") { "u" } else { "t" };
                tables.push(t);
                nrs.insert(t, 0);
                has_dv.insert(t, false);
                model.push(format!("(create {t} 2)"));
                sql.push(format!("create table {t}(a int, b int)"));
            }
            0..=4 => {
                let t = *r.pick(&tables);
                *nrs.get_mut(t).unwrap() += 1;
                let k = r.range(1, 3);
                let rows: Vec<(i64, i64)> = (0..k)
                    .map(|_| {
                        next_a += 1;
                        (next_a, r.range(0, 9))
                    })
                    .collect();
                model.push(format!("(insert {t} {})", rows.iter().map(|(a, b)| format!("({a} {b})")).collect::<Vec<_>>().join(" ")));
                sql.push(format!("insert into {t} values {}", rows.iter().map(|(a, b)| format!("({a},{b})")).collect::<Vec<_>>().join(",")));
            }
            5..=7 => {
                let t = *r.pick(&tables);
                let c = r.range(0, next_a + 1);
                let (op, mop) = *r.pick(&[(">=", "ge"), ("<", "lt"), ("=", "eq")]);
                if nrs[t] > 0 {
                    has_dv.insert(t, true);
                }
                model.push(format!("(delete {t} {mop} {c})"));
                sql.push(format!("delete from {t} where a {op} {c}"));
            }
            8 => {
                model.push("(reopen)".into());
                sql.push("REOPEN".into());
            }
            10 | 11 => {
                // one compactor pass: only when at most one table has two or more row-sets (the
                // pass visits tables in hash order; with one candidate the new ids are determined)
                let cands: Vec<&str> = tables.iter().filter(|t| nrs[**t] >= 2).cloned().collect();
                if cands.len() == 1 {
                    let t = cands[0];
                    model.push(format!("(compact {t})"));
                    sql.push("COMPACT".into());
                    nrs.insert(t, 1);
                    if has_dv[t] {
                        compacted_with_dv.push(t);
                    }
                } else {
                    model.push("(vacuum)".into());
                    sql.push("VACUUM".into());
                }
            }
            12 => {
                model.push("(vacuum)".into());
                sql.push("VACUUM".into());
            }
            _ => {
                // (DROP of a table whose compacted-away row-sets had delete vectors makes the
                // next open panic — corpus case, known finding; not generated)
                let droppable: Vec<&str> = tables.iter().filter(|t| !compacted_with_dv.contains(*t)).cloned().collect();
                if step > 1 && r.chance(1, 2) && !droppable.is_empty() {
                    let t = *r.pick(&droppable);
                    model.push(format!("(drop {t})"));
                    sql.push(format!("drop table {t}"));
                    tables.retain(|x| *x != t);
                } else {
                    model.push("(reopen)".into());
                    sql.push("REOPEN".into());
                }
            }
        }
    }
    (format!("({})", model.join(" ")), sql)
}

fn main() {
    let args: Vec<String> = std::env::args().collect();
    match args[1].as_str() {
        "gen" => {
            let n: usize = args[2].parse().unwrap();
            let mut r = Rng::from_env();
            let mut out = String::new();
            for _ in 0..n {
                let (m, s) = gen_workload(&mut r);
                out += &format!("{m}\t{}\n", s.join(";"));
            }
            std::fs::write(&args[3], out).unwrap();
        }
        "run" => {
            silence_panics();
            let thorough = args.get(5).map(|s| s == "thorough").unwrap_or(false);
            let mut ctx = Ctx { rt: runtime(), work: PathBuf::from(&args[4]), thorough, n_img: 0 };
            std::fs::create_dir_all(&ctx.work).unwrap();
            use std::io::Write;
            let mut file = std::fs::File::create(&args[3]).unwrap();
            for (wid, l) in read_lines(&args[2]).iter().enumerate() {
                let (m, s) = l.split_once('\t').unwrap();
                let stmts: Vec<String> = s.split(';').map(|x| x.to_string()).collect();
                let mut out = vec![];
                run_workload(&mut ctx, wid, m, &stmts, &mut out);
                // written per workload: a thorough run produces tens of thousands of records
                let text: String = out.iter().map(|v| v.to_string() + "\n").collect();
                file.write_all(text.as_bytes()).unwrap();
            }
        }
        _ => panic!("usage"),
    }
}
