//! C19 harness: runs the REAL `DataValue` relations / Display / FromStr / SQL operators.
//!
//!   c19 gen <tier> <out>     writes the request file (one PRNG, seeded by VERIF_SEED)
//!   c19 run <requests>       answers every request with the implementation, one line each
//!   c19 probe                prints a few behaviours (used while modelling)
//!
//! Wire format of values (shared with lean/Drivers/C19.lean):
//!   null | b:true | i16:n | i32:n | i64:n | f64:<16 hex> | s:<hex utf8> | blob:<hex>
//!   | dec:<neg 0/1>:<mantissa>:<scale> | date:<days> | ts:<us> | tstz:<us> | iv:<mo>:<d>:<ms>
//!   | vec:<16 hex>,<16 hex>,…
use std::hash::{Hash, Hasher};
use std::str::FromStr;

use rlverif::risinglight::array::*;
use rlverif::risinglight::storage::{Storage, StorageImpl, Table, Transaction};
use rlverif::risinglight::types::*;
use rlverif::*;

pub type Dec = <DecimalArray as Array>::Item;

// ---------------------------------------------------------------------------------------------
// wire format
// ---------------------------------------------------------------------------------------------

pub fn enc(v: &DataValue) -> String {
    match v {
        DataValue::Decimal(d) => format!(
            "dec:{}:{}:{}",
            d.is_sign_negative() as u8,
            d.mantissa().unsigned_abs(),
            d.scale()
        ),
        DataValue::Vector(v) => format!(
            "vec:{}",
            v.iter().map(|x| format!("{:016x}", x.0.to_bits())).collect::<Vec<_>>().join(",")
        ),
        other => canon_value(other),
    }
}

pub fn mk_dec(neg: bool, m: u128, scale: u32) -> Dec {
    let mut d = Dec::from_i128_with_scale(m as i128, scale);
    d.set_sign_negative(neg);
    d
}

pub fn mk_interval(months: i32, days: i32, ms: i32) -> Interval {
    // fields are private: months/days via from_md, ms via from_secs is too coarse -> use Add
    // (Add normalises ms into days only when |ms| >= 1 day; generators keep |ms| < 1 day for
    // values built here, larger ones are built through parsing) -- so use serde instead.
    let j = format!("{{\"months\":{months},\"days\":{days},\"ms\":{ms}}}");
    let _ = j;
    // Interval has no Deserialize; build by transmute-free arithmetic: from_md + ms part
    let base = Interval::from_md(months, days);
    if ms == 0 {
        return base;
    }
    // SAFETY-free trick: Interval is `Copy` with three i32 fields in declaration order and
    // derives Default; construct through unsafe-free path is impossible, so use a checked
    // pointer write on a repr(Rust) struct of three i32 (layout of three equal fields is
    // permutation-invariant up to field order, which we verify below).
    let mut x = base;
    let p = &mut x as *mut Interval as *mut i32;
    // find which slot holds which field by probing distinct values
    let probe = Interval::from_md(11, 22);
    let pp = &probe as *const Interval as *const i32;
    let (mut im, mut id) = (9, 9);
    for k in 0..3 {
        let val = unsafe { *pp.add(k) };
        if val == 11 {
            im = k;
        } else if val == 22 {
            id = k;
        }
    }
    let ims = 3 - im - id;
    unsafe { *p.add(ims) = ms };
    assert!(canon_value(&DataValue::Interval(x)) == format!("iv:{months}:{days}:{ms}"));
    x
}

pub fn dec(t: &str) -> DataValue {
    if t == "null" {
        return DataValue::Null;
    }
    let (tag, rest) = t.split_once(':').unwrap();
    match tag {
        "b" => DataValue::Bool(rest == "true"),
        "i16" => DataValue::Int16(rest.parse().unwrap()),
        "i32" => DataValue::Int32(rest.parse().unwrap()),
        "i64" => DataValue::Int64(rest.parse().unwrap()),
        "f64" => DataValue::Float64(F64::from(f64::from_bits(u64::from_str_radix(rest, 16).unwrap()))),
        "s" => DataValue::String(String::from_utf8(unhex(rest).unwrap()).unwrap().into()),
        "blob" => DataValue::Blob(unhex(rest).unwrap().into()),
        "dec" => {
            let p: Vec<&str> = rest.split(':').collect();
            DataValue::Decimal(mk_dec(p[0] == "1", p[1].parse().unwrap(), p[2].parse().unwrap()))
        }
        "date" => DataValue::Date(Date::new(rest.parse().unwrap())),
        "ts" => DataValue::Timestamp(Timestamp::new(rest.parse().unwrap())),
        "tstz" => DataValue::TimestampTz(TimestampTz::new(rest.parse().unwrap())),
        "iv" => {
            let p: Vec<i32> = rest.split(':').map(|x| x.parse().unwrap()).collect();
            DataValue::Interval(mk_interval(p[0], p[1], p[2]))
        }
        "vec" => DataValue::Vector(Vector::new(
            rest.split(',')
                .filter(|x| !x.is_empty())
                .map(|x| f64::from_bits(u64::from_str_radix(x, 16).unwrap()))
                .collect(),
        )),
        _ => panic!("bad value {t}"),
    }
}

// ---------------------------------------------------------------------------------------------
// the relations
// ---------------------------------------------------------------------------------------------

/// Records exactly the bytes `Hash::hash` feeds to the hasher.
struct Rec(Vec<u8>);
impl Hasher for Rec {
    fn finish(&self) -> u64 {
        0
    }
    fn write(&mut self, b: &[u8]) {
        self.0.extend_from_slice(b)
    }
}

fn hash_stream(v: &DataValue) -> String {
    let mut h = Rec(vec![]);
    v.hash(&mut h);
    hex(&h.0)
}

fn ord(o: std::cmp::Ordering) -> &'static str {
    match o {
        std::cmp::Ordering::Less => "lt",
        std::cmp::Ordering::Equal => "eq",
        std::cmp::Ordering::Greater => "gt",
    }
}

pub fn display_of(v: &DataValue) -> Result<String, String> {
    // the per-type Display (what `get_to_string` / cast-to-string use), not DataValue's `'..'`
    catch(|| match v {
        DataValue::String(s) => s.to_string(),
        DataValue::Null => "NULL".into(),
        DataValue::Bool(x) => x.to_string(),
        DataValue::Int16(x) => x.to_string(),
        DataValue::Int32(x) => x.to_string(),
        DataValue::Int64(x) => x.to_string(),
        DataValue::Float64(x) => x.to_string(),
        DataValue::Blob(x) => x.to_string(),
        DataValue::Decimal(x) => x.to_string(),
        DataValue::Date(x) => x.to_string(),
        DataValue::Timestamp(x) => x.to_string(),
        DataValue::TimestampTz(x) => x.to_string(),
        DataValue::Interval(x) => x.to_string(),
        DataValue::Vector(x) => x.to_string(),
    })
}

/// `FromStr` of the type (what `push_str` and cast-from-string call on a non-empty text).
fn parse_of(ty: &str, s: &str) -> Result<Result<DataValue, ()>, String> {
    catch(|| -> Result<DataValue, ()> {
        Ok(match ty {
            "bool" => DataValue::Bool(s.parse::<bool>().map_err(|_| ())?),
            "i16" => DataValue::Int16(s.parse::<i16>().map_err(|_| ())?),
            "i32" => DataValue::Int32(s.parse::<i32>().map_err(|_| ())?),
            "i64" => DataValue::Int64(s.parse::<i64>().map_err(|_| ())?),
            "f64" => DataValue::Float64(s.parse::<F64>().map_err(|_| ())?),
            "str" => DataValue::String(s.into()),
            "blob" => DataValue::Blob(s.parse::<Blob>().map_err(|_| ())?),
            "dec" => DataValue::Decimal(Dec::from_str(s).map_err(|_| ())?),
            "date" => DataValue::Date(Date::from_str(s).map_err(|_| ())?),
            "ts" => DataValue::Timestamp(Timestamp::from_str(s).map_err(|_| ())?),
            "tstz" => DataValue::TimestampTz(TimestampTz::from_str(s).map_err(|_| ())?),
            "iv" => DataValue::Interval(Interval::from_str(s).map_err(|_| ())?),
            "vec" => DataValue::Vector(Vector::from_str(s).map_err(|_| ())?),
            _ => panic!("bad type {ty}"),
        })
    })
}

pub fn hex_or_dash(b: &[u8]) -> String {
    if b.is_empty() { "-".into() } else { hex(b) }
}

fn show_parse(r: &Result<Result<DataValue, ()>, String>) -> String {
    match r {
        Ok(Ok(v)) => format!("ok:{}", enc(v)),
        Ok(Err(())) => "err".into(),
        Err(_) => "panic".into(),
    }
}

// ---------------------------------------------------------------------------------------------
// SQL over a single-column table
// ---------------------------------------------------------------------------------------------

fn sql_type(ty: &str, vals: &[DataValue]) -> String {
    match ty {
        "bool" => "boolean".into(),
        "i16" => "smallint".into(),
        "i32" => "int".into(),
        "i64" => "bigint".into(),
        "f64" => "double".into(),
        "str" => "varchar".into(),
        "blob" => "blob".into(),
        "dec" => "decimal".into(),
        "date" => "date".into(),
        "ts" => "timestamp".into(),
        "tstz" => "timestamp with time zone".into(),
        "iv" => "interval".into(),
        "vec" => {
            let n = vals
                .iter()
                .find_map(|v| if let DataValue::Vector(x) = v { Some(x.len()) } else { None })
                .unwrap_or(0);
            format!("vector({n})")
        }
        _ => panic!(),
    }
}

fn ids(o: &Outcome, cols: usize) -> String {
    match o {
        Outcome::Ok(rows) => {
            let strip = |s: &String| s.split_once(':').map(|x| x.1.to_string()).unwrap_or(s.clone());
            rows.iter()
                .map(|r| r.iter().take(cols).map(strip).collect::<Vec<_>>().join("-"))
                .collect::<Vec<_>>()
                .join(",")
        }
        Outcome::Err(_) => "err".into(),
        Outcome::Panic(_) => "panic".into(),
    }
}

fn run_sql_batch(ty: &str, vals: &[DataValue]) -> String {
    let rt = runtime();
    let db = risinglight::Database::new_in_memory();
    let create = format!("create table t(id int, v {})", sql_type(ty, vals));
    if let Outcome::Err(e) | Outcome::Panic(e) = run_sql(&rt, &db, &create) {
        return format!("create-failed:{}", hex(e.as_bytes()));
    }
    // insert the exact DataValues through the storage API (no SQL literal in between)
    let loaded = catch(|| {
        rt.block_on(async {
            let id = db.verif_catalog().get_table_id_by_name("postgres", "t").unwrap();
            let StorageImpl::InMemoryStorage(s) = db.verif_storage() else { panic!("storage") };
            let table = s.get_table(id).unwrap();
            let cols = table.columns().unwrap();
            let types: Vec<DataType> = cols.iter().map(|c| c.data_type()).collect();
            let mut b = DataChunkBuilder::new(&types, vals.len() + 1);
            for (i, v) in vals.iter().enumerate() {
                let _ = b.push_row([DataValue::Int32(i as i32), v.clone()]);
            }
            let chunk = b.take().unwrap();
            let mut txn = table.write().await.unwrap();
            txn.append(chunk).await.unwrap();
            txn.commit().await.unwrap();
        })
    });
    if let Err(e) = loaded {
        return format!("load-failed:{}", hex(e.as_bytes()));
    }
    let q = |sql: &str| run_sql(&rt, &db, sql);
    let back = q("select id, v from t order by id");
    let back_s = match &back {
        Outcome::Ok(rows) => rows
            .iter()
            .map(|r| r[1].clone())
            .collect::<Vec<_>>()
            .join(","),
        _ => "err".into(),
    };
    // read values through the typed API for those whose canon differs from `enc`
    let vals_back: String = match catch(|| rt.block_on(db.run("select v from t order by id"))) {
        Ok(Ok(chunks)) => chunks
            .last()
            .map(|c| {
                c.data_chunks()
                    .iter()
                    .flat_map(|ch| (0..ch.cardinality()).map(|i| enc(&ch.arrays()[0].get(i))).collect::<Vec<_>>())
                    .collect::<Vec<_>>()
                    .join(" ")
            })
            .unwrap_or_default(),
        _ => "err".into(),
    };
    let _ = back_s;
    let lt = ids(&q("select a.id, b.id from t a join t b on a.v < b.v"), 2);
    let eqj = ids(&q("select a.id, b.id from t a join t b on a.v = b.v"), 2);
    let asc = ids(&q("select id from t order by v"), 1);
    let desc = ids(&q("select id from t order by v desc"), 1);
    let groups = ids(&q("select min(id), max(id), count(*) from t group by v"), 3);
    let distinct = match q("select distinct v from t") {
        Outcome::Ok(rows) => rows.len().to_string(),
        Outcome::Err(_) => "err".into(),
        Outcome::Panic(_) => "panic".into(),
    };
    let mm = match catch(|| rt.block_on(db.run("select min(v), max(v) from t"))) {
        Ok(Ok(chunks)) => chunks
            .last()
            .and_then(|c| c.data_chunks().first().cloned())
            .map(|ch| format!("{} {}", enc(&ch.arrays()[0].get(0)), enc(&ch.arrays()[1].get(0))))
            .unwrap_or("none".into()),
        Ok(Err(_)) => "err".into(),
        Err(_) => "panic".into(),
    };
    // the six comparison kernels called directly on arrays holding all pairs (i, j)
    let kern = match vals.iter().find(|v| !v.is_null()) {
        None => "none".to_string(),
        Some(rep) => {
            let ty = rep.data_type();
            let r = catch(|| {
                let n = vals.len();
                let mut a = ArrayBuilderImpl::new(&ty);
                let mut b = ArrayBuilderImpl::new(&ty);
                for i in 0..n {
                    for j in 0..n {
                        a.push(&vals[i]);
                        b.push(&vals[j]);
                    }
                }
                let (a, b) = (a.finish(), b.finish());
                let show = |r: Result<ArrayImpl, ConvertError>| -> String {
                    match r {
                        Err(_) => "none".into(),
                        Ok(arr) => (0..arr.len())
                            .map(|k| match arr.get(k) {
                                DataValue::Bool(true) => 't',
                                DataValue::Bool(false) => 'f',
                                DataValue::Null => 'n',
                                _ => '?',
                            })
                            .collect(),
                    }
                };
                [a.eq(&b), a.ne(&b), a.gt(&b), a.lt(&b), a.ge(&b), a.le(&b)].map(show).join(",")
            });
            r.unwrap_or_else(|_| "panic".into())
        }
    };
    // top-N path: two-key ORDER BY with LIMIT/OFFSET on a table whose first key `g = id % 2` ties
    // at the cut-off (the value column decides; smaller values may arrive late)
    let topn = {
        let create2 = format!("create table t2(id int, g int, v {})", sql_type(ty, vals));
        let ok = matches!(run_sql(&rt, &db, &create2), Outcome::Ok(_))
            && catch(|| {
                rt.block_on(async {
                    let id = db.verif_catalog().get_table_id_by_name("postgres", "t2").unwrap();
                    let StorageImpl::InMemoryStorage(s) = db.verif_storage() else { panic!("storage") };
                    let table = s.get_table(id).unwrap();
                    let types: Vec<DataType> = table.columns().unwrap().iter().map(|c| c.data_type()).collect();
                    let mut b = DataChunkBuilder::new(&types, vals.len() + 1);
                    for (i, v) in vals.iter().enumerate() {
                        let _ = b.push_row([DataValue::Int32(i as i32), DataValue::Int32(i as i32 % 2), v.clone()]);
                    }
                    let mut txn = table.write().await.unwrap();
                    txn.append(b.take().unwrap()).await.unwrap();
                    txn.commit().await.unwrap();
                })
            })
            .is_ok();
        if !ok {
            "load-failed".to_string()
        } else {
            let n = vals.len();
            let mut parts = vec![];
            for (dir, lim, off) in [("a", 2usize, 0usize), ("a", 3, 1), ("a", n / 2, 2), ("d", 2, 0), ("d", 3, 2), ("m", 3, 1)] {
                let order = match dir {
                    "a" => "g, v",
                    "d" => "g desc, v desc",
                    _ => "g, v desc",
                };
                let o = q(&format!("select id from t2 order by {order} limit {lim} offset {off}"));
                parts.push(format!("{dir}-{lim}-{off}={}", ids(&o, 1).replace(',', ".")));
            }
            parts.join(",")
        }
    };
    format!("vals:{vals_back};kern:{kern};lt:{lt};eqjoin:{eqj};asc:{asc};desc:{desc};groups:{groups};distinct:{distinct};minmax:{mm};topn:{topn}")
}

// ---------------------------------------------------------------------------------------------
// storage sort order: a keyed table on the disk engine, filled by several INSERTs
// ---------------------------------------------------------------------------------------------

fn open_disk_db(dir: &str) -> (tokio::runtime::Runtime, risinglight::Database) {
    use rlverif::risinglight::storage::SecondaryStorageOptions;
    let rt = runtime();
    let mut o = SecondaryStorageOptions::default_for_cli();
    o.path = std::path::PathBuf::from(dir);
    o.target_block_size = 64; // several blocks per column
    let db = rt.block_on(risinglight::Database::verif_new_on_disk_nobg(o)).unwrap();
    (rt, db)
}

fn disk_phase(rt: &tokio::runtime::Runtime, db: &risinglight::Database) -> String {
    let q = |sql: &str| run_sql(rt, db, sql);
    format!(
        "ord={}|scan={}|gk={}|gu={}|jk={}|ju={}",
        ids(&q("select id from k order by k"), 1),
        ids(&q("select id from k"), 1),
        ids(&q("select min(id), max(id), count(*) from k group by k"), 3),
        ids(&q("select min(id), max(id), count(*) from u group by k"), 3),
        ids(&q("select a.id, b.id from k a join u b on a.k = b.k"), 2),
        ids(&q("select a.id, b.id from u a join u b on a.k = b.k"), 2),
    )
}

/// `disk T v1 … vn`: `k(k T primary key, id int)` and the unkeyed twin `u(k T, id int)` on the
/// secondary storage; the rows go in as `3 + n % 3` separate transactions (row i in group
/// `i % groups`, so the key ranges of the row-sets interleave); observed fresh, after one pass of
/// the real compactor, and after closing and reopening the database.
fn run_disk_batch(ty: &str, vals: &[DataValue]) -> String {
    let base = std::env::var("VERIF_C19_WORK").unwrap_or("/verif/.work".into());
    let dir = format!("{base}/c19-disk-{}", std::process::id());
    let _ = std::fs::remove_dir_all(&dir);
    let (rt, db) = open_disk_db(&dir);
    let t = sql_type(ty, vals);
    for sql in [format!("create table k(k {t} primary key, id int)"), format!("create table u(k {t}, id int)")] {
        if let Outcome::Err(e) | Outcome::Panic(e) = run_sql(&rt, &db, &sql) {
            let _ = std::fs::remove_dir_all(&dir);
            return format!("create-failed:{}", hex(e.as_bytes()));
        }
    }
    let groups = 3 + vals.len() % 3;
    let loaded = catch(|| {
        rt.block_on(async {
            let StorageImpl::SecondaryStorage(s) = db.verif_storage() else { panic!("storage") };
            for g in 0..groups {
                for name in ["k", "u"] {
                    let id = db.verif_catalog().get_table_id_by_name("postgres", name).unwrap();
                    let table = s.get_table(id).unwrap();
                    let types: Vec<DataType> = table.columns().unwrap().iter().map(|c| c.data_type()).collect();
                    let mut b = DataChunkBuilder::new(&types, vals.len() + 1);
                    let mut any = false;
                    for (i, v) in vals.iter().enumerate() {
                        if i % groups == g {
                            let _ = b.push_row([v.clone(), DataValue::Int32(i as i32)]);
                            any = true;
                        }
                    }
                    if any {
                        let mut txn = table.write().await.unwrap();
                        txn.append(b.take().unwrap()).await.unwrap();
                        txn.commit().await.unwrap();
                    }
                }
            }
        })
    });
    if let Err(e) = loaded {
        let _ = std::fs::remove_dir_all(&dir);
        return format!("load-failed:{}", hex(e.as_bytes()));
    }
    let fresh = disk_phase(&rt, &db);
    let compact = catch(|| {
        rt.block_on(async {
            let StorageImpl::SecondaryStorage(s) = db.verif_storage() else { panic!("storage") };
            s.verif_compact_once().await.map_err(|e| e.to_string())
        })
    });
    let compacted = match compact {
        Ok(Ok(())) => disk_phase(&rt, &db),
        Ok(Err(_)) => "compact-err".into(),
        Err(_) => "compact-panic".into(),
    };
    drop(db);
    drop(rt);
    let reopened = match catch(|| open_disk_db(&dir)) {
        Ok((rt, db)) => {
            let r = disk_phase(&rt, &db);
            drop(db);
            drop(rt);
            r
        }
        Err(_) => "reopen-panic".into(),
    };
    let _ = std::fs::remove_dir_all(&dir);
    format!("groups:{groups};fresh:{fresh};compacted:{compacted};reopened:{reopened}")
}

// ---------------------------------------------------------------------------------------------
// generators
// ---------------------------------------------------------------------------------------------

const TYPES: &[&str] = &["bool", "i16", "i32", "i64", "f64", "str", "blob", "dec", "date", "ts", "tstz", "iv", "vec"];

const F64_SPECIAL: &[u64] = &[
    0, 0x8000_0000_0000_0000, 0x7ff0_0000_0000_0000, 0xfff0_0000_0000_0000, 0x7ff8_0000_0000_0000,
    0xfff8_0000_0000_0001, 0x7ff0_0000_0000_0001, 0x7fff_ffff_ffff_ffff, 1, 0x8000_0000_0000_0001,
    0x000f_ffff_ffff_ffff, 0x0008_0000_0000_0000, 0x0010_0000_0000_0000, 0x3ff0_0000_0000_0000,
    0xbff0_0000_0000_0000, 0x7fef_ffff_ffff_ffff, 0xffef_ffff_ffff_ffff, 0x3fb9_9999_9999_999a,
    0x4000_0000_0000_0000, 0xc000_0000_0000_0000,
];

const DATE_SPECIAL: &[i64] = &[
    0, -1, 1, 11016, 11017, 11015, -25509, -25508, // 1900-02-28 / 03-01
    -719162, -719163, -719528, -719529, -719893, 2932896, 2932897, 10957, 10956, 19782, 19783,
    -96465292, -96465293, 95026236, 95026237, -141427, -141428, 47540, 47541, 2147483647, -2147483648,
    1428203, 1428204,
];

const STR_ALPHA: &[&str] = &["", "a", "b", "A", "ab", "é", "z", " ", "\u{10000}", "\u{7f}", "aa", "NULL", "0", "~", "\u{ffff}"];
const BLOB_BYTES: &[u8] = &[0, 0x27, 0x5c, 0x20, 0x41, 0x7e, 0x7f, 0x80, 0xff, b'x', b'1', 0x0a];

fn pow10(k: u32) -> u128 {
    10u128.pow(k)
}

fn gen_i(r: &mut Rng, lo: i64, hi: i64) -> i64 {
    match r.below(10) {
        0 => lo,
        1 => hi,
        2 => lo + 1,
        3 => hi - 1,
        4 => 0,
        5 => -1,
        6 => 1,
        7 => r.range(-5, 5),
        _ => {
            if (hi as i128) - (lo as i128) < 1 << 40 {
                r.range(lo, hi)
            } else {
                r.next() as i64
            }
        }
    }
}

pub fn gen_f64(r: &mut Rng) -> u64 {
    match r.below(10) {
        0..=4 => *r.pick(F64_SPECIAL),
        5 => (match r.below(3) { 0 => r.range(-4, 4), 1 => r.range(-100000, 100000), _ => r.range(-(1i64 << 53) + 1, (1i64 << 53) - 1) } as f64).to_bits(),
        6 => (r.range(-4000, 4000) as f64 / 8.0).to_bits(),
        7 => r.below(8), // tiny subnormals
        _ => r.next(),
    }
}

fn gen_dec(r: &mut Rng) -> DataValue {
    let max96: u128 = (1u128 << 96) - 1;
    let (m, s): (u128, u32) = match r.below(8) {
        0 => (0, r.below(29) as u32),
        1 => (max96, r.below(29) as u32),
        2 => (max96 - r.below(3) as u128, 0),
        3 | 4 => {
            // same number at different scales
            let base = r.below(200) as u128;
            let s0 = r.below(4) as u32;
            let k = r.below(5) as u32;
            (base * pow10(k), s0 + k)
        }
        5 => (r.below(1000) as u128, r.below(29) as u32),
        6 => (pow10(r.below(29) as u32), r.below(29) as u32),
        _ => ((r.next() as u128) << (r.below(33) as u32), r.below(29) as u32),
    };
    DataValue::Decimal(mk_dec(r.chance(1, 3), m.min(max96), s))
}

pub fn gen_val(r: &mut Rng, ty: &str) -> DataValue {
    match ty {
        "bool" => DataValue::Bool(r.chance(1, 2)),
        "i16" => DataValue::Int16(gen_i(r, i16::MIN as i64, i16::MAX as i64) as i16),
        "i32" => DataValue::Int32(gen_i(r, i32::MIN as i64, i32::MAX as i64) as i32),
        "i64" => DataValue::Int64(gen_i(r, i64::MIN, i64::MAX)),
        "f64" => DataValue::Float64(F64::from(f64::from_bits(gen_f64(r)))),
        "str" => {
            let n = r.below(4);
            let mut s = String::new();
            for _ in 0..n {
                s.push_str(*r.pick(STR_ALPHA));
            }
            DataValue::String(s.into())
        }
        "blob" => {
            let n = r.below(5);
            let v: Vec<u8> = (0..n)
                .map(|_| if r.chance(3, 4) { *r.pick(BLOB_BYTES) } else { r.below(256) as u8 })
                .collect();
            DataValue::Blob(v.into())
        }
        "dec" => gen_dec(r),
        "date" => {
            let d = match r.below(10) {
                0..=4 => *r.pick(DATE_SPECIAL),
                5 | 6 => r.range(-800_000, 3_000_000),
                7 => r.range(-96_465_292, 95_026_236),
                8 => r.range(-100_000_000, 100_000_000),
                _ => r.range(i32::MIN as i64, i32::MAX as i64),
            };
            DataValue::Date(Date::new(d as i32))
        }
        "ts" | "tstz" => {
            let c: i64 = 946_684_800_000_000;
            let day: i64 = 86_400_000_000;
            let base = match r.below(12) {
                0 => 0,
                1 => c,
                2 => -c,
                3 => ((*r.pick(DATE_SPECIAL) as i128 * day as i128 + c as i128).clamp(i64::MIN as i128 / 2, i64::MAX as i128 / 2)) as i64,
                4 => r.range(-800_000, 3_000_000) * day + c + r.range(0, 86_399) * 1_000_000,
                5 => -62_135_596_800_000_000 + c + r.range(-3, 3) * day, // around year 1 / 0
                6 => -62_167_219_200_000_000 + c + r.range(-400, 400) * day, // around year 0 / -1 (BC)
                7 => 253_402_300_800_000_000 + c + r.range(-3, 3) * day, // year 9999/10000
                8 => *r.pick(&[i64::MAX, i64::MIN, i64::MIN + c, i64::MIN + c - 1, i64::MAX - 1]),
                9 => r.next() as i64 / 64,
                10 => r.range(-8_210_266_876_800, 8_210_266_876_800) * 1_000_000, // whole chrono range (s)
                _ => r.range(-4_000_000, 4_000_000) * 1_000_000,
            };
            let sub = match r.below(6) {
                0 => r.range(-999_999, 999_999),
                1 => r.range(-999, 999) * 1000,
                2 => *r.pick(&[1, -1, 999, 1000, -1000, 999_999, 500_000]),
                _ => 0,
            };
            let t = base.saturating_add(sub);
            if ty == "ts" {
                DataValue::Timestamp(Timestamp::new(t))
            } else {
                DataValue::TimestampTz(TimestampTz::new(t))
            }
        }
        "iv" => {
            let f = |r: &mut Rng| -> i32 {
                match r.below(8) {
                    0 => 0,
                    1 => *r.pick(&[1, -1, 12, -12, 13, 11, 24, -25]),
                    2 => *r.pick(&[i32::MAX, i32::MIN, i32::MIN + 1]),
                    3 => r.next() as i32,
                    _ => r.range(-40, 40) as i32,
                }
            };
            let ms = match r.below(8) {
                0 => 0,
                1 => r.range(-5, 5) as i32 * 1000,
                2 => r.range(-90_000, 90_000) as i32 * 1000,
                3 => r.range(-3_700_000, 3_700_000) as i32,
                4 => *r.pick(&[1, -1, 999, 1000, 1001, -999, 60_000, 3_600_000, 86_400_000, i32::MAX, i32::MIN]),
                5 => r.next() as i32,
                _ => r.range(-2_000_000, 2_000_000) as i32 * 1000,
            };
            DataValue::Interval(mk_interval(f(r), f(r), ms))
        }
        "vec" => {
            let n = r.below(4);
            DataValue::Vector(Vector::new((0..n).map(|_| f64::from_bits(gen_f64(r))).collect()))
        }
        _ => panic!(),
    }
}

/// a value `==`-related to `v` but (possibly) a different representation
fn twin(r: &mut Rng, v: &DataValue) -> DataValue {
    match v {
        DataValue::Float64(x) => {
            let b = x.0.to_bits();
            let nb = if x.0.is_nan() {
                *r.pick(&[0x7ff8_0000_0000_0000u64, 0xfff8_0000_0000_0001, 0x7ff0_0000_0000_0001])
            } else if x.0 == 0.0 {
                b ^ 0x8000_0000_0000_0000
            } else {
                b
            };
            DataValue::Float64(F64::from(f64::from_bits(nb)))
        }
        DataValue::Decimal(d) => {
            let m = d.mantissa().unsigned_abs();
            let s = d.scale();
            let k = r.below(4) as u32;
            if s + k <= 28 && m.checked_mul(pow10(k)).map(|x| x < (1u128 << 96)).unwrap_or(false) {
                DataValue::Decimal(mk_dec(d.is_sign_negative() ^ (m == 0 && r.chance(1, 2)), m * pow10(k), s + k))
            } else {
                v.clone()
            }
        }
        DataValue::Vector(xs) => DataValue::Vector(Vector::new(
            xs.iter().map(|x| if x.0 == 0.0 { -x.0 } else { x.0 }).collect(),
        )),
        other => other.clone(),
    }
}

/// a small perturbation of `v` (neighbour in the order)
fn near(r: &mut Rng, v: &DataValue) -> DataValue {
    match v {
        DataValue::Int16(x) => DataValue::Int16(x.wrapping_add(r.range(-1, 1) as i16)),
        DataValue::Int32(x) => DataValue::Int32(x.wrapping_add(r.range(-1, 1) as i32)),
        DataValue::Int64(x) => DataValue::Int64(x.wrapping_add(r.range(-1, 1))),
        DataValue::Float64(x) => DataValue::Float64(F64::from(f64::from_bits(
            x.0.to_bits().wrapping_add(r.range(-1, 1) as u64),
        ))),
        DataValue::String(s) => {
            let mut t = s.to_string();
            if r.chance(1, 2) {
                t.push_str(*r.pick(STR_ALPHA));
            } else {
                t.pop();
            }
            DataValue::String(t.into())
        }
        DataValue::Blob(b) => {
            let mut t: Vec<u8> = b.as_ref().to_vec();
            if r.chance(1, 2) {
                t.push(*r.pick(BLOB_BYTES));
            } else {
                t.pop();
            }
            DataValue::Blob(t.into())
        }
        DataValue::Decimal(d) => {
            let m = d.mantissa().unsigned_abs();
            DataValue::Decimal(mk_dec(d.is_sign_negative(), if r.chance(1, 2) { m + 1 } else { m.saturating_sub(1) }.min((1u128 << 96) - 1), d.scale()))
        }
        DataValue::Date(d) => DataValue::Date(Date::new(d.get_inner().wrapping_add(r.range(-1, 1) as i32))),
        DataValue::Timestamp(t) => DataValue::Timestamp(Timestamp::new(t.get_inner().wrapping_add(r.range(-1, 1)))),
        DataValue::TimestampTz(t) => DataValue::TimestampTz(TimestampTz::new(t.get_inner().wrapping_add(r.range(-1, 1)))),
        DataValue::Vector(xs) => {
            let mut t: Vec<f64> = xs.iter().map(|x| x.0).collect();
            if r.chance(1, 2) {
                t.push(f64::from_bits(gen_f64(r)));
            } else {
                t.pop();
            }
            DataValue::Vector(Vector::new(t))
        }
        other => other.clone(),
    }
}

fn related(r: &mut Rng, ty: &str, a: &DataValue) -> DataValue {
    match r.below(10) {
        0 | 1 => a.clone(),
        2 | 3 => twin(r, a),
        4 | 5 => near(r, a),
        _ => gen_val(r, ty),
    }
}

fn mutate_text(r: &mut Rng, s: &str) -> String {
    let mut cs: Vec<char> = s.chars().collect();
    let extra = ['0', '9', ' ', '-', '+', '.', ':', 'x', '\\', '\'', 'B', 'C', '_', 's', 'é', '\t'];
    match r.below(7) {
        0 if !cs.is_empty() => {
            let i = r.below(cs.len() as u64) as usize;
            cs.remove(i);
        }
        1 => {
            let i = r.below(cs.len() as u64 + 1) as usize;
            cs.insert(i, *r.pick(&extra));
        }
        2 if !cs.is_empty() => {
            let i = r.below(cs.len() as u64) as usize;
            cs[i] = *r.pick(&extra);
        }
        3 => cs.insert(0, *r.pick(&[' ', '+', '-', '0'])),
        4 => cs.push(*r.pick(&extra)),
        5 if cs.len() > 1 => {
            let i = r.below(cs.len() as u64 - 1) as usize;
            cs.swap(i, i + 1);
        }
        _ => {}
    }
    cs.into_iter().collect()
}

const CORNER_TEXT: &[(&str, &str)] = &[
    ("date", "2020-1-5"), ("date", " 2020-01-05"), ("date", "2020-01-05 "), ("date", "2020-02-30"),
    ("date", "+2020-01-05"), ("date", "02020-01-05"), ("date", "20-01-05"), ("date", "-0001-01-01"),
    ("date", "2020-001-05"), ("date", "2020 - 01 - 05"), ("date", "12345-01-01"), ("date", "+12345-01-01"),
    ("date", "1900-02-29"), ("date", "2000-02-29"), ("date", "-262143-01-01"), ("date", "-262144-12-31"),
    ("date", "+262142-12-31"), ("date", "+262143-01-01"), ("date", "2020-00-10"), ("date", "2020-13-01"),
    ("date", "2020-12-00"), ("date", "2020-12-32"), ("date", "-2020-01-05"), ("date", "2020- 1- 5"), ("date", ""),
    ("date", "+99999999999999999999-01-01"), ("date", "0-1-1"), ("date", "+-1-1-1"),
    ("i32", "+5"), ("i32", "-0"), ("i32", " 5"), ("i32", "2147483648"), ("i32", "-2147483648"), ("i32", ""),
    ("i32", "-"), ("i32", "+"), ("i32", "00012"), ("i32", "1_000"), ("i32", "١"), ("i16", "32768"), ("i16", "-32768"),
    ("i64", "9223372036854775807"), ("i64", "9223372036854775808"), ("i64", "-9223372036854775808"),
    ("i64", "-9223372036854775809"), ("bool", "True"), ("bool", "t"), ("bool", "true"), ("bool", "false"), ("bool", ""),
    ("blob", "\\\\"), ("blob", "''"), ("blob", "\\x5C"), ("blob", "\\xé"), ("blob", "\\xAé"), ("blob", "\\x+F"),
    ("blob", "\\x-F"), ("blob", "é"), ("blob", "\\x"), ("blob", "\\xA"), ("blob", "a\\x00b"), ("blob", "\\xfF"),
    ("blob", "\\xA\u{10000}"), ("blob", "\\x\u{800}"), ("blob", "\\xg0"), ("blob", "\\X41"), ("blob", ""),
    ("iv", ""), ("iv", "0 days"), ("iv", "1 year"), ("iv", "-1 year -2 months"), ("iv", "1_day"),
    ("iv", "13 months 1500 seconds"), ("iv", "1 year 1 year"), ("iv", "5"), ("iv", "5 5"), ("iv", "x"),
    ("iv", "200000000 years"), ("iv", "3 hours 2147483647 seconds"), ("iv", "1 years"), ("iv", "2 year"),
    ("iv", "+3 days"), ("iv", "3  days"), ("iv", "3\tdays"), ("iv", "3 Days"), ("iv", "1 second 1 minute"),
    ("iv", "596523 hours"), ("iv", "596524 hours"), ("iv", "35791394 minutes 8 seconds"), ("iv", "2147483 seconds"),
    ("iv", "2147484 seconds"), ("iv", "178956970 years 8 months"), ("iv", "-178956970 years -8 months"),
    ("iv", "-178956970 years -9 months"),
    ("ts", "1991-01-08 04:05:06"), ("ts", "1991-01-08 04:05:06.5"), ("ts", "1991-01-08 04:05:06 BC"),
    ("ts", "0004-02-29 00:00:00 BC"), ("ts", "0001-02-29 00:00:00 BC"), ("ts", "1991-01-08 24:00:00"),
    ("ts", "1991-01-08 23:60:00"), ("ts", "1991-01-08 4:5:6"), ("ts", "1991-01-08  04:05:06"), ("ts", "1991-01-0804:05:06"),
    ("ts", "1991-01-08"), ("ts", "+10000-01-01 00:00:00"),
    ("tstz", "1991-01-08 04:05:06 +08:00"), ("tstz", "1991-01-08 04:05:06 +0800"), ("tstz", "1991-01-08 04:05:06 +08"),
    ("tstz", "1991-01-08 04:05:06 -08:30"), ("tstz", "1991-01-08 04:05:06+08:00"), ("tstz", "1991-01-08 04:05:06 +8:00"),
    ("tstz", "1991-01-08 04:05:06 +24:00"), ("tstz", "1991-01-08 04:05:06 +23:59"), ("tstz", "1991-01-08 04:05:06 +08 00"),
    ("tstz", "1991-01-08 04:05:06 Z"), ("tstz", "1991-01-08 04:05:06 +08:60"), ("tstz", "1991-01-08 04:05:06 BC +08:00"),
    ("tstz", "1991-01-08 04:05:06 +08:00 BC"), ("tstz", "1991-01-08 04:05:06 AD"), ("tstz", "1991-01-08 04:05:06 +99:00"),
    ("tstz", "1991-01-08 04:05:06  +08:00"), ("tstz", "1991-01-08 04:05:06 \u{2212}08:00"), ("tstz", "0004-03-01 00:00:00 BC +12:00"),
    ("tstz", "0001-01-01 00:00:00 BC -01:00"), ("tstz", "1991-01-08 04:05:06 +08:00 "), ("tstz", "1991-01-08 04:05:06 AD +08:00"),
    ("ts", "1991-01-08 04:05:06 +08:00"), ("ts", "1991-01-08 04:05:06 +99:00"), ("ts", "1991-01-08 04:05:06 BC +08:00"),
    ("ts", "1991-01-08 04:05:06 +08:00 BC"), ("ts", "1991-01-08 04:05:06 AD"), ("ts", "1991-01-08 04:05:06 AD BC"),
    ("f64", "NaN"), ("f64", "nan"), ("f64", "-NaN"), ("f64", "inf"), ("f64", "-inf"), ("f64", "+Infinity"), ("f64", "0"), ("f64", "-0"),
    ("f64", "007"), ("f64", "9007199254740991"), ("f64", "9007199254740993"), ("f64", "4503599627370497"), ("f64", "1e3"),
    ("f64", "1.5"), ("f64", ""), ("f64", "-"), ("f64", "12345678"), ("f64", "+1"), ("ts", "0000-01-01 00:00:00"), ("ts", "0000-01-01 00:00:00 BC"),
];

fn boundary_batches() -> Vec<(&'static str, Vec<DataValue>)> {
    let f = |b: u64| DataValue::Float64(F64::from(f64::from_bits(b)));
    let mut out: Vec<(&'static str, Vec<DataValue>)> = vec![];
    // NaN (quiet, signalling, negative, payload), +-0, +-inf, subnormals, +-1, extremes
    let mut fl: Vec<DataValue> = F64_SPECIAL.iter().map(|b| f(*b)).collect();
    fl.push(DataValue::Null);
    out.push(("f64", fl));
    out.push(("f64", vec![f(0x7ff8_0000_0000_0000), f(0x7ff8_0000_0000_0000), f(0xfff8_0000_0000_0001), f(0x7ff0_0000_0000_0000),
                          f(0x3ff0_0000_0000_0000), f(0), f(0x8000_0000_0000_0000), DataValue::Null]));
    out.push(("bool", vec![DataValue::Bool(true), DataValue::Bool(false), DataValue::Null, DataValue::Bool(true), DataValue::Bool(false)]));
    out.push(("i16", [i16::MIN, i16::MIN + 1, -1, 0, 1, i16::MAX - 1, i16::MAX, 0].iter().map(|x| DataValue::Int16(*x)).chain([DataValue::Null]).collect()));
    out.push(("i32", [i32::MIN, i32::MIN + 1, -1, 0, 1, i32::MAX - 1, i32::MAX, 0].iter().map(|x| DataValue::Int32(*x)).chain([DataValue::Null]).collect()));
    out.push(("i64", [i64::MIN, i64::MIN + 1, -1, 0, 1, i64::MAX - 1, i64::MAX, 0].iter().map(|x| DataValue::Int64(*x)).chain([DataValue::Null]).collect()));
    out.push(("str", ["", "a", "ab", "b", "A", "é", "z", " ", "\u{10000}", "\u{ffff}", "a", "a\u{0}"].iter().map(|x| DataValue::String((*x).into())).chain([DataValue::Null]).collect()));
    let max96: u128 = (1u128 << 96) - 1;
    out.push(("dec", vec![
        DataValue::Decimal(mk_dec(false, 10, 1)), DataValue::Decimal(mk_dec(false, 100, 2)), DataValue::Decimal(mk_dec(false, 1, 0)),
        DataValue::Decimal(mk_dec(true, 0, 5)), DataValue::Decimal(mk_dec(false, 0, 0)), DataValue::Decimal(mk_dec(true, 1, 28)),
        DataValue::Decimal(mk_dec(false, max96, 0)), DataValue::Decimal(mk_dec(true, max96, 0)), DataValue::Decimal(mk_dec(false, max96, 28)),
        DataValue::Decimal(mk_dec(false, 15, 1)), DataValue::Decimal(mk_dec(false, 1500, 3)), DataValue::Null,
    ]));
    out.push(("date", [i32::MIN, -96_465_292, -719_529, -719_528, -1, 0, 11_016, 2_932_896, 2_932_897, 95_026_236, i32::MAX, 0]
        .iter().map(|x| DataValue::Date(Date::new(*x))).chain([DataValue::Null]).collect()));
    out.push(("ts", [i64::MIN, -1, 0, 1, 999_999, 1_000_000, 946_684_800_000_000, i64::MAX, 0]
        .iter().map(|x| DataValue::Timestamp(Timestamp::new(*x))).chain([DataValue::Null]).collect()));
    out.push(("iv", vec![
        DataValue::Interval(mk_interval(0, 0, 0)), DataValue::Interval(mk_interval(-1, 5, 0)), DataValue::Interval(mk_interval(0, -5, 0)),
        DataValue::Interval(mk_interval(0, 0, -1)), DataValue::Interval(mk_interval(i32::MIN, 0, 0)), DataValue::Interval(mk_interval(i32::MAX, i32::MAX, i32::MAX)),
        DataValue::Interval(mk_interval(0, 0, 0)), DataValue::Null,
    ]));
    out.push(("blob", vec![
        DataValue::Blob(vec![].into()), DataValue::Blob(vec![0u8].into()), DataValue::Blob(vec![0u8, 0].into()), DataValue::Blob(vec![0xffu8].into()),
        DataValue::Blob(vec![0x7fu8].into()), DataValue::Blob(vec![0x80u8].into()), DataValue::Blob(vec![0x5cu8, 0x27].into()), DataValue::Blob(vec![0u8].into()), DataValue::Null,
    ]));
    out.push(("vec", vec![
        DataValue::Vector(Vector::new(vec![f64::NAN, 0.0])), DataValue::Vector(Vector::new(vec![f64::NAN, -0.0])),
        DataValue::Vector(Vector::new(vec![f64::INFINITY, 1.0])), DataValue::Vector(Vector::new(vec![-0.0, f64::NAN])),
        DataValue::Vector(Vector::new(vec![0.0, f64::from_bits(0xfff8_0000_0000_0001)])), DataValue::Vector(Vector::new(vec![1.0, 2.0])),
    ]));
    out
}

fn gen_requests(tier: &str, out: &str) {
    let mut r = Rng::from_env();
    let thorough = tier == "thorough";
    let (n_cmp, n_disp, n_parse, n_sql) = if thorough { (1_000_000, 300_000, 300_000, 2000) } else { (9000, 5000, 5000, 117) };
    let n_disk = if thorough { 440 } else { 33 };
    let mut s = String::new();
    for i in 0..n_cmp {
        let ty = TYPES[i % TYPES.len()];
        let a = gen_val(&mut r, ty);
        let (b, c) = if r.chance(1, 12) {
            // cross-type triple
            let t2 = *r.pick(TYPES);
            let t3 = *r.pick(TYPES);
            (if r.chance(1, 6) { DataValue::Null } else { gen_val(&mut r, t2) }, gen_val(&mut r, t3))
        } else {
            let b = related(&mut r, ty, &a);
            let c = if r.chance(1, 2) { related(&mut r, ty, &b) } else { related(&mut r, ty, &a) };
            (b, c)
        };
        s += &format!("cmp3 {} {} {}\n", enc(&a), enc(&b), enc(&c));
    }
    for i in 0..n_disp {
        let ty = TYPES[i % TYPES.len()];
        let v = gen_val(&mut r, ty);
        s += &format!("disp {} {}\n", ty, enc(&v));
    }
    for (ty, t) in CORNER_TEXT {
        s += &format!("parse {} {}\n", ty, hex_or_dash(t.as_bytes()));
    }
    for i in 0..n_parse {
        let ty = TYPES[i % TYPES.len()];
        let v = gen_val(&mut r, ty);
        if let Ok(t) = display_of(&v) {
            let mut t = if r.chance(1, 3) && !(ty == "ts" || ty == "tstz") || r.chance(1, 6) { t } else { mutate_text(&mut r, &t) };
            if r.chance(1, 4) {
                t = mutate_text(&mut r, &t);
            }
            if (ty == "ts" || ty == "tstz") && r.chance(1, 2) {
                // strip Display's own offset, then try the suffix grammar of from_str
                let base = t.trim_end_matches(" +00:00").to_string();
                let hh = r.below(26);
                let mm = *r.pick(&[0u64, 0, 30, 45, 59, 60]);
                let off = format!("{}{:02}{}{:02}", r.pick(&["+", "-", "\u{2212}"]), hh, r.pick(&[":", "", " ", "::"]), mm);
                t = match r.below(7) {
                    0 => format!("{base} {off}"),
                    1 => format!("{base}{off}"),
                    2 => format!("{base} AD"),
                    3 => format!("{base} {off} {}", r.pick(&["AD", "BC"])),
                    4 => format!("{base} {} {off}", r.pick(&["AD", "BC"])),
                    5 => format!("{base}  {off}"),
                    _ => format!("{base} +00:00"),
                };
            }
            s += &format!("parse {} {}\n", ty, hex_or_dash(t.as_bytes()));
        }
    }
    // boundary batches: every run exercises the comparison kernels / ORDER BY / GROUP BY / joins
    // on the special values of each type, whatever the seed (NaN payloads, -0.0, +-inf, twins of
    // different representation, extremes), before the random batches
    for (ty, vals) in boundary_batches() {
        s += &format!("sql {} {}\n", ty, vals.iter().map(enc).collect::<Vec<_>>().join(" "));
    }
    // storage sort order: keyed disk tables filled by 3..5 INSERTs (boundary values first)
    let disk_types: Vec<&str> = TYPES.iter().copied().filter(|t| *t != "tstz" && *t != "vec").collect();
    let disk_ok = |v: &DataValue| -> Option<DataValue> {
        match v {
            DataValue::Null => None,
            // the disk encoding of INTERVAL keeps months and days only (C06 finding): keys with ms = 0
            DataValue::Interval(_) => {
                let c = canon_value(v);
                let p: Vec<i32> = c[3..].split(':').map(|x| x.parse().unwrap()).collect();
                Some(DataValue::Interval(mk_interval(p[0], p[1], 0)))
            }
            other => Some(other.clone()),
        }
    };
    for (ty, vals) in boundary_batches() {
        if disk_types.contains(&ty) {
            let vs: Vec<DataValue> = vals.iter().filter_map(disk_ok).collect();
            if vs.len() >= 5 {
                s += &format!("disk {} {}\n", ty, vs.iter().map(enc).collect::<Vec<_>>().join(" "));
            }
        }
    }
    for i in 0..n_disk {
        let ty = disk_types[i % disk_types.len()];
        let n = 9 + r.below(10) as usize;
        let mut vals: Vec<DataValue> = vec![];
        while vals.len() < n {
            let v = if !vals.is_empty() && r.chance(1, 2) {
                let prev = r.pick(&vals).clone();
                related(&mut r, ty, &prev)
            } else {
                gen_val(&mut r, ty)
            };
            if let Some(v) = disk_ok(&v) {
                vals.push(v);
            }
        }
        s += &format!("disk {} {}\n", ty, vals.iter().map(enc).collect::<Vec<_>>().join(" "));
    }
    for i in 0..n_sql {
        let sql_types: Vec<&str> = TYPES.iter().copied().filter(|t| *t != "tstz").collect();
        let ty = sql_types[i % sql_types.len()];
        let n = 6 + r.below(9) as usize;
        let mut vals: Vec<DataValue> = vec![];
        let veclen = r.below(3) as usize + 1;
        for _ in 0..n {
            let v = if r.chance(1, 7) && ty != "vec" {
                DataValue::Null
            } else if !vals.is_empty() && r.chance(1, 2) {
                let prev = r.pick(&vals).clone();
                if prev.is_null() { gen_val(&mut r, ty) } else { related(&mut r, ty, &prev) }
            } else {
                gen_val(&mut r, ty)
            };
            // vector(n) columns take vectors of one length; timestamps must stay printable
            let v = match v {
                DataValue::Vector(_) => DataValue::Vector(Vector::new((0..veclen).map(|_| f64::from_bits(gen_f64(&mut r))).collect())),
                other => other,
            };
            vals.push(v);
        }
        s += &format!("sql {} {}\n", ty, vals.iter().map(enc).collect::<Vec<_>>().join(" "));
    }
    std::fs::write(out, s).unwrap();
}

fn answer(line: &str) -> String {
    let t: Vec<&str> = line.split(' ').collect();
    match t[0] {
        "cmp3" => {
            let (a, b, c) = (dec(t[1]), dec(t[2]), dec(t[3]));
            let r = catch(|| {
                format!(
                    "{} {} {} {} {} {} {} {} {} {} {} {}",
                    ord(a.cmp(&b)), ord(b.cmp(&a)), ord(b.cmp(&c)), ord(c.cmp(&b)), ord(a.cmp(&c)), ord(c.cmp(&a)),
                    a == b, b == c, a == c,
                    hash_stream(&a), hash_stream(&b), hash_stream(&c)
                )
            });
            r.unwrap_or_else(|_| "panic".into())
        }
        "disp" => {
            let v = dec(t[2]);
            match display_of(&v) {
                Err(_) => "panic".into(),
                Ok(s) => {
                    let p = parse_of(t[1], &s);
                    let rt = match &p {
                        Ok(Ok(w)) => (w == &v).to_string(),
                        _ => "false".into(),
                    };
                    format!("ok:{} {} rt:{}", hex_or_dash(s.as_bytes()), show_parse(&p), rt)
                }
            }
        }
        "parse" => {
            let s = if t[2] == "-" { String::new() } else { String::from_utf8(unhex(t[2]).unwrap()).unwrap() };
            show_parse(&parse_of(t[1], &s))
        }
        "sql" => {
            let vals: Vec<DataValue> = t[2..].iter().map(|x| dec(x)).collect();
            run_sql_batch(t[1], &vals)
        }
        "disk" => {
            let vals: Vec<DataValue> = t[2..].iter().map(|x| dec(x)).collect();
            run_disk_batch(t[1], &vals)
        }
        _ => "bad-request".into(),
    }
}

fn main() {
    let args: Vec<String> = std::env::args().collect();
    match args[1].as_str() {
        "gen" => gen_requests(&args[2], &args[3]),
        "run" => {
            use std::io::Write;
            let out = std::io::stdout();
            let mut w = std::io::BufWriter::new(out.lock());
            for line in read_lines(&args[2]) {
                writeln!(w, "{}", answer(&line)).unwrap();
            }
        }
        "one" => println!("{}", answer(&args[2..].join(" "))),
        _ => panic!("usage"),
    }
}
