//! C12 harness.  `c12 gen <n> <out>` writes cases (one per line); `c12 run <cases> <workdir>` runs
//! each on a fresh on-disk database and prints `REQ <driver request>` / `OBS <observation>` lines.
#[path = "scan_common/mod.rs"]
mod common;
use common::*;
use rlverif::risinglight::types::DataValue;
use rlverif::*;

pub fn gen_val(r: &mut Rng, ty: Ty, nullable: bool) -> DataValue {
    if nullable && r.chance(1, 6) {
        return DataValue::Null;
    }
    match ty {
        Ty::I32 => DataValue::Int32(match r.below(10) {
            0 => *r.pick(&[-2147483647, 2147483647, -1, 1000]),
            1 | 2 => r.range(-3, 3) as i32,
            _ => r.range(0, 15) as i32,
        }),
        Ty::I64 => DataValue::Int64(match r.below(10) {
            0 => *r.pick(&[-3000000000i64, 3000000000, 4294967296, -1]),
            _ => r.range(0, 15),
        }),
        Ty::Str | Ty::Char => DataValue::String((*r.pick(&["", "a", "ab", "b", "c", "d", "e", "zz", "B"])).into()),
        Ty::I16 => DataValue::Int16(r.range(-3, 15) as i16),
        Ty::Bool => DataValue::Bool(r.chance(1, 2)),
    }
}

fn gen_case(r: &mut Rng, id: usize) -> Case {
    let ncols = r.range(1, 4) as usize;
    let pkdecl = match r.below(10) {
        0..=5 => PkDecl::Col,
        6 => PkDecl::Tbl,
        _ => PkDecl::None,
    };
    let pk = if pkdecl == PkDecl::None { None } else if r.chance(1, 3) { Some(0) } else { Some(r.below(ncols as u64) as usize) };
    let mut cols = vec![];
    for i in 0..ncols {
        let ty = if Some(i) == pk {
            if r.chance(3, 5) { Ty::I32 } else { *r.pick(&[Ty::I64, Ty::Str, Ty::I16, Ty::Char]) }
        } else {
            *r.pick(&[Ty::I32, Ty::I32, Ty::I32, Ty::I64, Ty::Str, Ty::I16, Ty::Bool, Ty::Char])
        };
        cols.push(ColDef { ty, nullable: Some(i) != pk && r.chance(1, 2) });
    }
    let block = *r.pick(&[24usize, 32, 32, 64, 64, 128, 16384]);
    // write history
    let nins = *r.pick(&[1usize, 2, 2, 3, 3, 4]);
    let mut ops = vec![];
    // a quarter of the cases: no background tasks, explicit compaction passes in the history
    // (keys then distinct: the merge order of equal keys is the heap's business)
    let nobg = r.chance(1, 4);
    let distinct_pk = nobg || r.chance(3, 4);
    let mut used: Vec<String> = vec![];
    for _ in 0..nins {
        let nrows = match r.below(8) {
            0 => 1,
            1 => r.range(20, 45) as usize,
            _ => r.range(2, 9) as usize,
        };
        let mut rows = vec![];
        for _ in 0..nrows {
            let mut row = vec![];
            for (i, c) in cols.iter().enumerate() {
                let mut v = gen_val(r, c.ty, c.nullable);
                if Some(i) == pk && distinct_pk {
                    let mut tries = 0;
                    while used.contains(&canon_value(&v)) && (tries < 50 || nobg) {
                        let hi = if tries < 50 { 120 } else { 5000 };
                        v = match c.ty {
                            Ty::I32 => DataValue::Int32(r.range(-5, hi) as i32),
                            Ty::I64 => DataValue::Int64(r.range(-5, hi)),
                            Ty::I16 => DataValue::Int16(r.range(-5, hi) as i16),
                            Ty::Bool => DataValue::Bool(r.chance(1, 2)),
                            Ty::Str | Ty::Char => DataValue::String(format!("k{}", r.range(0, 5000)).into()),
                        };
                        tries += 1;
                    }
                    used.push(canon_value(&v));
                }
                row.push(v);
            }
            rows.push(row);
        }
        ops.push(Op::Ins(rows));
        if r.chance(1, 3) {
            let c = r.below(ncols as u64) as usize;
            let a = gen_val(r, cols[c].ty, false);
            let mut b = gen_val(r, cols[c].ty, false);
            let mut tries = 0;
            while canon_value(&a) == canon_value(&b) && tries < 20 {
                b = gen_val(r, cols[c].ty, false);
                tries += 1;
            }
            if canon_value(&a) != canon_value(&b) {
                ops.push(Op::Del(c, a, b));
            }
        }
        if nobg && ops.iter().filter(|o| matches!(o, Op::Ins(_))).count() >= 2 && r.chance(1, 2) {
            ops.push(Op::Compact);
        }
    }
    // queries
    let nq = if r.chance(1, 2) { 3 } else { 4 };
    let mut queries = vec![];
    for qid in 0..nq {
        let mut proj: Vec<usize> = vec![];
        let np = r.range(1, ncols as i64) as usize;
        while proj.len() < np {
            let c = r.below(ncols as u64) as usize;
            if !proj.contains(&c) {
                proj.push(c);
            }
        }
        let mut keys: Vec<(usize, bool)> = vec![];
        match r.below(10) {
            0 => {}
            1..=4 if pk.is_some() => keys.push((pk.unwrap(), false)),
            5 if pk.is_some() => keys.push((pk.unwrap(), true)),
            _ => {
                let nk = r.range(1, 2.min(ncols as i64)) as usize;
                while keys.len() < nk {
                    let c = r.below(ncols as u64) as usize;
                    if !keys.iter().any(|k| k.0 == c) {
                        keys.push((c, r.chance(1, 3)));
                    }
                }
            }
        }
        let limit = match r.below(8) {
            0..=3 => None,
            4 => Some(0),
            5 => Some(1),
            6 => Some(r.range(2, 6) as u64),
            _ => Some(100000),
        };
        let offset = match r.below(8) {
            0..=4 => None,
            5 => Some(0),
            6 => Some(r.range(1, 4) as u64),
            _ => Some(1000),
        };
        // residual filter on a non-key column only (range pushdown is C13's subject)
        let nonkey: Vec<usize> = (0..ncols).filter(|c| Some(*c) != pk).collect();
        let wh = if pk.is_some() && r.chance(1, 4) {
            // a key-range predicate (pushed into the scan when the key is the INT first column)
            // together with the ORDER BY: the planner's order contract must hold for range scans too
            let c = pk.unwrap();
            let v = gen_val(r, cols[c].ty, false);
            let op = *r.pick(&[">", ">=", "<", "<=", ">="]);
            let mut w = format!(" where {} {} {}", colname(c), op, sql_lit(&v));
            if r.chance(1, 3) {
                let v2 = gen_val(r, cols[c].ty, false);
                w += &format!(" and {} {} {}", colname(c), if op.starts_with('>') { "<=" } else { ">" }, sql_lit(&v2));
            }
            w
        } else if !nonkey.is_empty() && r.chance(1, 4) {
            let c = *r.pick(&nonkey);
            let v = gen_val(r, cols[c].ty, false);
            let op = *r.pick(&["=", ">", ">=", "<", "<="]);
            format!(" where {} {} {}", colname(c), op, sql_lit(&v))
        } else {
            String::new()
        };
        let sel = |cs: &[usize]| cs.iter().map(|c| colname(*c)).collect::<Vec<_>>().join(", ");
        let ob = if keys.is_empty() {
            String::new()
        } else {
            format!(
                " order by {}",
                keys.iter().map(|(c, d)| format!("{}{}", colname(*c), if *d { " desc" } else { "" })).collect::<Vec<_>>().join(", ")
            )
        };
        let lim = limit.map(|n| format!(" limit {n}")).unwrap_or_default();
        let off = offset.map(|n| format!(" offset {n}")).unwrap_or_default();
        let desc: Vec<bool> = keys.iter().map(|k| k.1).collect();
        let keypos: Vec<i64> = keys.iter().map(|k| proj.iter().position(|p| *p == k.0).map(|x| x as i64).unwrap_or(-1)).collect();
        queries.push(Query {
            qid, kind: "main", sql: format!("select {} from t{}{}{}{}", sel(&proj), wh, ob, lim, off),
            nkeys: 0, desc: desc.clone(), keypos, limit, offset, wh: vec![], whpos: vec![],
        });
        let mut pk_cols = proj.clone();
        pk_cols.extend(keys.iter().map(|k| k.0));
        let kp: Vec<i64> = (0..keys.len()).map(|i| (proj.len() + i) as i64).collect();
        if !keys.is_empty() {
            queries.push(Query {
                qid, kind: "A", sql: format!("select {} from t{}{}", sel(&pk_cols), wh, ob),
                nkeys: keys.len(), desc: desc.clone(), keypos: kp.clone(), limit: None, offset: None, wh: vec![], whpos: vec![],
            });
        }
        queries.push(Query {
            qid, kind: "U", sql: format!("select {} from t{}", sel(&pk_cols), wh),
            nkeys: keys.len(), desc, keypos: kp, limit: None, offset: None, wh: vec![], whpos: vec![],
        });
    }
    // ---- joins / aggregation / window above the order analysis -------------------------------
    // A third of the cases get a second table `u` (same definition, its own INSERTs: keys overlap
    // with `t` but both sides have unmatched rows) and statements whose ORDER BY sits above a join
    // of every type, a GROUP BY or a window: the planner may drop such a sort only if the operator
    // below really delivers that order (analyze_order's arms).
    let mut ops2 = vec![];
    if ncols >= 2 && !nobg && r.chance(2, 5) {
        let mut used2: Vec<String> = vec![];
        for _ in 0..r.range(2, 3) {
            let mut rows = vec![];
            for _ in 0..r.range(2, 7) {
                let mut row = vec![];
                for (i, c) in cols.iter().enumerate() {
                    let mut v = gen_val(r, c.ty, c.nullable);
                    if Some(i) == pk && distinct_pk {
                        let mut tries = 0;
                        while used2.contains(&canon_value(&v)) && tries < 50 {
                            v = gen_val(r, c.ty, false);
                            tries += 1;
                        }
                        if used2.contains(&canon_value(&v)) {
                            continue;
                        }
                        used2.push(canon_value(&v));
                    }
                    row.push(v);
                }
                if row.len() == ncols {
                    rows.push(row);
                }
            }
            if !rows.is_empty() {
                ops2.push(Op::Ins(rows));
            }
        }
    }
    if !ops2.is_empty() {
        let kc = pk.unwrap_or(0);
        let other = (0..ncols).find(|c| *c != kc).unwrap();
        let mut qid = queries.iter().map(|q: &Query| q.qid).max().unwrap_or(0) + 1;
        let mut push = |queries: &mut Vec<Query>, qid: &mut usize, sel: Vec<String>, from: String, keys: Vec<(String, bool)>, tail: String, limit: Option<u64>| {
            let ob = format!(" order by {}", keys.iter().map(|(k, d)| format!("{k}{}", if *d { " desc" } else { "" })).collect::<Vec<_>>().join(", "));
            let desc: Vec<bool> = keys.iter().map(|k| k.1).collect();
            let keypos: Vec<i64> = keys.iter().map(|k| sel.iter().position(|p| *p == k.0).map(|x| x as i64).unwrap_or(-1)).collect();
            let lim = limit.map(|n| format!(" limit {n}")).unwrap_or_default();
            queries.push(Query { qid: *qid, kind: "main", sql: format!("select {} from {}{}{}{}", sel.join(", "), from, tail, ob, lim),
                nkeys: 0, desc: desc.clone(), keypos, limit, offset: None, wh: vec![], whpos: vec![] });
            let mut sk = sel.clone();
            sk.extend(keys.iter().map(|k| k.0.clone()));
            let kp: Vec<i64> = (0..keys.len()).map(|i| (sel.len() + i) as i64).collect();
            queries.push(Query { qid: *qid, kind: "A", sql: format!("select {} from {}{}{}", sk.join(", "), from, tail, ob),
                nkeys: keys.len(), desc: desc.clone(), keypos: kp.clone(), limit: None, offset: None, wh: vec![], whpos: vec![] });
            queries.push(Query { qid: *qid, kind: "U", sql: format!("select {} from {}{}", sk.join(", "), from, tail),
                nkeys: keys.len(), desc, keypos: kp, limit: None, offset: None, wh: vec![], whpos: vec![] });
            *qid += 1;
        };
        let tk = format!("t.{}", colname(kc));
        let uk = format!("u.{}", colname(kc));
        let to = format!("t.{}", colname(other));
        let uo = format!("u.{}", colname(other));
        // ORDER BY a key of either side above joins of every type, on the key (merge join) and on
        // another column (hash join)
        for jt in ["join", "left join", "right join", "full join"] {
            if !r.chance(3, 4) {
                continue;
            }
            let on_col = if r.chance(2, 3) { kc } else { other };
            let from = format!("t {jt} u on t.{} = u.{}", colname(on_col), colname(on_col));
            let keys = match r.below(6) {
                0 => vec![(tk.clone(), false)],
                1 | 2 => vec![(uk.clone(), false)],
                3 => vec![(uk.clone(), true)],
                4 => vec![(uk.clone(), false), (tk.clone(), false)],
                _ => vec![(tk.clone(), false), (uo.clone(), r.chance(1, 2))],
            };
            let sel = match r.below(3) {
                0 => vec![tk.clone(), uk.clone()],
                1 => vec![to.clone(), uo.clone(), uk.clone()],
                _ => vec![tk.clone(), uo.clone()],
            };
            let limit = if r.chance(1, 6) { Some(r.range(1, 4) as u64) } else { None };
            push(&mut queries, &mut qid, sel, from, keys, String::new(), limit);
        }
        // ORDER BY under / above GROUP BY (sort aggregation when the group key is the scan's key)
        let g = if r.chance(2, 3) { kc } else { other };
        push(&mut queries, &mut qid, vec![colname(g), "count(*)".to_string()], "t".to_string(),
            vec![(colname(g), r.chance(1, 4))], format!(" group by {}", colname(g)), None);
        // the right input ordered by MORE than the join key (subquery ORDER BY k, o DESC)
        if r.chance(1, 2) {
            let from = format!("t join (select {}, {} from u order by {}, {} desc) u on t.{} = u.{}", colname(kc), colname(other), colname(kc), colname(other), colname(kc), colname(kc));
            push(&mut queries, &mut qid, vec![tk.clone(), uo.clone()], from, vec![(uk.clone(), false), (uo.clone(), true)], String::new(), None);
        }
    }
    // storage level: sorted (merge) scan of all columns when there is a sort key
    let mut scans = vec![];
    if pkdecl == PkDecl::Col {
        scans.push(ScanReq { cols: (0..ncols).collect(), range: None, sorted: true, handler: 0 });
        // the ordered (merging) scan WITH a key range, as the executor requests it for
        // `WHERE k >= c ORDER BY k`
        if pk == Some(0) && cols[0].ty == Ty::I32 {
            let lo = gen_val(r, Ty::I32, false);
            let hi = gen_val(r, Ty::I32, false);
            let range = match r.below(3) {
                0 => (Bnd::Incl(lo), Bnd::Unb),
                1 => (Bnd::Excl(lo), Bnd::Incl(hi)),
                _ => (Bnd::Unb, Bnd::Excl(hi)),
            };
            scans.push(ScanReq { cols: (0..ncols).collect(), range: Some(range), sorted: true, handler: 0 });
        }
    }
    scans.push(ScanReq { cols: (0..ncols).collect(), range: None, sorted: false, handler: 0 });
    Case { id, nobg, block, cols, pk, pkdecl, ops, ops2, queries, scans }
}

fn main() {
    let args: Vec<String> = std::env::args().collect();
    match args[1].as_str() {
        "gen" => {
            let n: usize = args[2].parse().unwrap();
            let mut r = Rng::from_env();
            let mut out = String::new();
            for id in 0..n {
                out += &gen_case(&mut r, id).to_sexp();
                out.push('\n');
            }
            std::fs::write(&args[3], out).unwrap();
        }
        "run" => {
            let work = &args[3];
            for line in read_lines(&args[2]) {
                let c = Case::from_sexp(&line);
                let (req, obs) = run_case(&c, work);
                println!("REQ {req}");
                println!("OBS {obs}");
            }
        }
        "sqlprobe" => {
            // c12 sqlprobe <dbdir> <file with one statement per line>: results and optimized plans
            let d = open_disk(&args[2], 64, 1);
            for line in read_lines(&args[3]) {
                let o = d.sql(&line);
                if line.trim_start().to_lowercase().starts_with("select") {
                    let p = d.plans(&line).map(|x| x.1).unwrap_or_else(|e| e);
                    println!("{line}\n  plan {p}\n  => {}", o.render(false));
                } else {
                    let p = if line.trim_start().to_lowercase().starts_with("delete") { d.plans(&line).map(|x| x.1).unwrap_or_else(|e| e) } else { String::new() };
                    println!("{line} => {} {p}", o.render(false));
                }
            }
            d.close();
        }
        "sql" => {
            // prints the SQL script of the cases (for replays / humans)
            for line in read_lines(&args[2]) {
                let c = Case::from_sexp(&line);
                println!("-- case {} (block {})", c.id, c.block);
                println!("{};", c.create_sql());
                for op in &c.ops {
                    println!("{};", c.op_sql(op));
                }
                if !c.ops2.is_empty() {
                    println!("{};", c.create_sql().replacen("create table t(", "create table u(", 1));
                    for op in &c.ops2 {
                        println!("{};", c.op_sql_on(op, "u"));
                    }
                }
                for q in &c.queries {
                    println!("{}; -- q{} {}", q.sql, q.qid, q.kind);
                }
            }
        }
        _ => panic!("usage"),
    }
}
