//! C08 harness: readers vs writers / compactor / vacuum under the deterministic scheduler.
//! `c08 gen <n> <out>` writes cases, `c08 run <cases>` prints one trace line per case.
#[path = "sched_common/mod.rs"]
mod sched_common;
use rlverif::*;
use sched_common::*;

pub const GATES: &[&str] = &[
    "cmd.begin", "txn.lock.begin", "txn.pinned", "txn.locked", "vm.commit.begin", "vm.commitA", "vm.committed",
    "cp.pass.begin", "cp.table", "cp.locked", "cp.pass.end", "vac.find", "vac.unlinked", "rd.open",
    "rd.batch", "scan.batch", "ddl.drop.applied",
];

fn gen_case(r: &mut Rng, k: usize) -> Case {
    // setup: one or two tables, several row-sets, optionally deletes / a compaction so that the
    // version manager starts with pending deletions
    let two = r.chance(1, 3);
    let mut setup = vec![Cmd::Create("t1".into())];
    if two {
        setup.push(Cmd::Create("t2".into()));
    }
    let mut next = 1;
    let n_ins = r.range(1, 3) as usize;
    for _ in 0..n_ins {
        let n = r.range(1, 3) as usize;
        let vs: Vec<i32> = (0..n).map(|i| next + i as i32).collect();
        next += n as i32;
        setup.push(Cmd::Insert("t1".into(), vs));
    }
    if two {
        setup.push(Cmd::Insert("t2".into(), vec![100, 101]));
        setup.push(Cmd::Insert("t2".into(), vec![102]));
    }
    if r.chance(1, 3) {
        setup.push(Cmd::Delete("t1".into(), "lt".into(), r.range(1, 3) as i32));
    }
    if r.chance(1, 3) {
        setup.push(Cmd::Compact);
        if r.chance(1, 2) {
            setup.push(Cmd::Insert("t1".into(), vec![next]));
            next += 1;
        }
    }
    // actors
    let mut actors: Vec<Vec<Cmd>> = vec![];
    let n_readers = if r.chance(1, 4) { 2 } else { 1 };
    for _ in 0..n_readers {
        let t = if two && r.chance(1, 4) { "t2" } else { "t1" };
        let mut a = vec![Cmd::Read(t.into(), r.range(1, 3) as usize)];
        if r.chance(1, 4) {
            a.push(Cmd::Read(t.into(), 2));
        }
        actors.push(a);
    }
    // an executor-level scan (`Database::run`): its read txn must stay pinned while the stream
    // delivers batch after batch (one batch per row-set here), whatever commits in between
    if r.chance(1, 2) {
        actors.push(vec![Cmd::Select("t1".into())]);
    }
    // one writer session; there is ONE compactor task and ONE vacuum task in a real database, so
    // at most one actor issues compaction passes and at most one issues vacuum passes
    let w = match r.below(6) {
        0 => vec![Cmd::Insert("t1".into(), vec![next, next + 1])],
        1 => vec![Cmd::Delete("t1".into(), "ge".into(), r.range(1, 4) as i32)],
        2 => vec![Cmd::Drop("t1".into())],
        3 => vec![Cmd::Insert("t1".into(), vec![next]), Cmd::Delete("t1".into(), "eq".into(), 1)],
        4 => vec![Cmd::Delete("t1".into(), "all".into(), 0)],
        _ => vec![],
    };
    if !w.is_empty() {
        actors.push(w);
    }
    if r.chance(4, 5) {
        actors.push(if r.chance(1, 3) { vec![Cmd::Compact, Cmd::Compact] } else { vec![Cmd::Compact] });
    }
    if r.chance(4, 5) {
        let n = r.range(1, 3) as usize;
        actors.push(vec![Cmd::Vacuum; n]);
    }
    Case {
        id: format!("g{k}"),
        gate: GATES.iter().map(|s| s.to_string()).collect(),
        setup,
        actors,
        sched: vec![],
        rng: r.next() | 1,
        sticky: *r.pick(&[0, 50, 80]),
        script: vec![],
        target: 0,
    }
}

fn main() {
    let args: Vec<String> = std::env::args().collect();
    match args[1].as_str() {
        "gen" => {
            let n: usize = args[2].parse().unwrap();
            let mut r = Rng::from_env();
            let mut out = String::new();
            for k in 0..n {
                out += &gen_case(&mut r, k).to_sexp();
                out.push('\n');
            }
            std::fs::write(&args[3], out).unwrap();
        }
        "run" => {
            let dir = work_dir("c08");
            for (i, line) in read_lines(&args[2]).iter().enumerate() {
                let case = Case::parse(line);
                let o = run_case(&case, &dir.join(format!("db{i}")));
                println!("{}", render_trace(&case, &o));
                let _ = std::fs::remove_dir_all(dir.join(format!("db{i}")));
            }
            let _ = std::fs::remove_dir_all(&dir);
        }
        _ => panic!("usage"),
    }
}
